"""Per-property configuration of the dispatcher: parts (harness binaries), flavours, budgets, evidence mapping."""

PROPS = {}
NOT_APPLICABLE = {}   # property id -> reason (only for properties that are deliberately not claimed)

PROPS["C10"] = dict(
    level="exploration",
    budget_s=dict(quick=60, thorough=120),
    parts=[dict(name="gate", bin="C10", flavour="plain", shards=4)],
    manifest=dict(
        engine="E3", design_ref="5 / C10",
        technique="exhaustive enumeration of version triples x open modes x Force on real files; ordering laws on all pairs/triples",
        text="The whole configuration space the statement quantifies over is small and is enumerated completely: every stored "
             "version triple of a cube around the library version plus integer extremes, in all three open modes with Force off "
             "and on, against the statement's gate formula; a forced ReadWrite open directly after every refused open; the cube again with the "
             "triple stored as int8/16/64, big-endian and unsigned integers (files of other NIX implementations); the cube again as the SECOND "
             "open of the file while a forced ReadOnly / ReadWrite handle of the same process holds it open (gate must follow the requested mode); "
             "one path re-planted with every triple in turn (fixed modification time) and opened back to back in one mode; the triples older than 1.2.0 again on files WITHOUT the id attribute (older formats had none); "
             "FormatVersion order laws on all ordered pairs and all cube triples. "
             "Exhaustive within that cube, hence 'exploration' with exhaustive:true.",
        note="Trusted: HDF5 attribute I/O used to plant the version triple; the formula is expressed relative to the version a "
             "freshly created file reports, not hard-coded."),
    evidence=dict(
        keys=dict(evaluations=("sum", [("count", "opens"), ("count", "opens_typed"), ("count", "opens_second"), ("count", "opens_noid"), ("count", "opens_inplace"), ("count", "pair_laws"), ("count", "triple_laws")]),
                  distinct_nontrivial=("distinct", "outcomes")),
        rule="every version triple of the cube [Lx-1..Lx+2]x[Ly-2..Ly+2]x[Lz-1..Lz+3] around the library version L plus "
             "INT_MIN/-1/INT_MAX extremes is written into the header of a valid file (HDF5 C API) and opened in "
             "{ReadOnly,ReadWrite,Overwrite} x Force{off,on}; cube x 10 integer storage types of the attribute x modes x Force; cube x first handle "
             "{ReadOnly,ReadWrite}+Force x second open {ReadOnly,ReadWrite} x Force (HDF5-forbidden combinations excluded); ordering laws on all ordered pairs and on all triples with a "
             "in the cube. distinct_nontrivial = distinct (version class relative to L, mode, force, outcome) tuples and "
             "distinct comparison outcomes.",
        bound=dict(quick="whole space", thorough="whole space"),
        assumptions=["HDF5 1.10 attribute I/O is correct", "the base file is produced by the library under test"],
    ),
)

PROPS["C07"] = dict(
    level="exploration",
    budget_s=dict(quick=300, thorough=600),
    parts=[dict(name="grid", bin="C07", flavour="plain"), dict(name="histories", bin="C07s", flavour="plain")],
    manifest=dict(
        engine="E2", design_ref="5 / C07",
        technique="exhaustive input grid on real dimensions of a real file vs. reference search over the axis coordinates",
        text="The property is a pure function of (axis, position, rule). The check enumerates a fixed family of axes (112 sampled "
             "axes with decimal and binary intervals and offsets, 8 tick vectors, 4 set and 3 data-frame axes), every sample index "
             "up to N (300 quick / 10000 thorough), the positions on / one ulp beside / between / below / beyond the coordinates, all "
             "five rules, and all start/end pairs over blocks of neighbouring candidates in both range modes, through the scalar, pair "
             "and vector overloads and util::positionToIndex, and through every deprecated form (scalar = GreaterOrEqual or error, pair / list = inclusive or error, "
             "RangeDimension strict / filtering list) with the request list whole, reduced to its valid pairs and cut after the first invalid pair. Complete over that grid; says nothing about axes outside the family. Part 2 (histories): every sequence "
             "up to depth 3/4 of axis-changing operations (ticks, interval, offset, labels, frame rows, data of an aliased array; through either of two live handles or through "
             "the array; REOPEN) with the conversion grid evaluated after the last step through the handle returned by append, a second earlier handle and a fresh one.",
        note="Reference = binary search over the coordinates the library itself reports (checked to equal offset+i*interval / the ticks "
             "given and to be strictly ascending); exact double comparisons. Axes that are not strictly ascending in double are skipped "
             "and counted."),
    evidence=dict(
        keys=dict(evaluations=("sum", [("count", "scalar_calls"), ("count", "pair_calls"), ("count", "legacy_calls"), ("count", "roundtrips"), ("count", "conversions")]),
                  distinct_nontrivial=("distinct", "outcomes")),
        rule="grid: axis family x sample index 0..N x {x_i, x_i-1ulp, x_i+1ulp, midpoint, below axis, beyond axis} x 5 PositionMatch rules; "
             "start/end pairs = all ordered pairs of the candidates around three anchor blocks x 2 RangeMatch modes; "
             "distinct_nontrivial = distinct (axis kind, position class, rule, kind of answer) tuples observed.",
        bound=dict(quick="N=300 indices per sampled axis, pair blocks of 6 indices", thorough="N=10000, pair blocks of 12 indices"),
        assumptions=["positions are compared as doubles, exactly", "axis coordinates are those the library reports (positionAt/axis/ticks), cross-checked against offset+i*interval"],
    ),
)

PROPS["C18"] = dict(
    level="exploration",
    budget_s=dict(quick=300, thorough=2700),
    parts=[dict(name="units", bin="C18", flavour="plain", budget_share=0.7), dict(name="retrieval", bin="C18b", flavour="plain")],
    manifest=dict(
        engine="E2", design_ref="5 / C18",
        technique="exhaustive grid over all prefix x base-unit x power strings (pairs, triples) against 10^(power*(ea-eb)); retrieval invariance grid",
        text="Unit scaling is a pure function of two strings over a finite alphabet (21 prefixes x 31 base units x 7 powers = 4557 units). "
             "All 95k same-base pairs are checked for the exact factor, reciprocity and symmetry, all 1.9M same-base triples for "
             "composition, and cross-base / cross-power pairs for rejection (quick: prefixes {none,m,k}: 0.4M pairs; thorough: all 20M). "
             "Complete over that alphabet. Part (b): Tag, MultiTag and dataSlice requests on unit-carrying axes (rank 1-2) are re-expressed with every SI prefix and numerically "
             "rescaled values (only where the library's own arithmetic reproduces the unscaled numbers exactly, checked per case) and must return the same region. Every configuration of part (b) runs a second time under a global C++ locale with decimal comma and digit grouping.",
        note="Factors compared with relative tolerance 1e-12 (any realistic defect is off by a factor >= 10). A missing power and an explicit ^1 "
             "are not compared with each other. The base-unit list is transcribed from the library and validated through isSIUnit."),
    evidence=dict(
        keys=dict(evaluations=("sum", [("count", "unit_calls"), ("count", "law_checks"), ("count", "scaled_retrievals")]),
                  distinct_nontrivial=("distinct", "outcomes")),
        rule="units = prefix? base power? over 21 prefixes (incl. none) x 31 bases x {none,^1,^2,^3,^-1,^-2,^-3}; same-base groups: all "
             "441 ordered pairs and 9261 triples each; cross groups: every pair of units with differing base or power (quick: prefixes none/m/k); "
             "16 non-SI strings against a sub-grid. distinct_nontrivial = distinct (power, exponent difference, outcome) / (rejection reason, outcome) tuples.",
        bound=dict(quick="all same-base pairs+triples; cross-base pairs over 3 prefixes", thorough="all same-base pairs+triples; all cross-base pairs"),
        assumptions=["relative tolerance 1e-12 on factors", "base-unit list transcribed from src/util/util.cpp and validated by isSIUnit"],
    ),
)

_E1_ASSUME = ["HDF5 1.10.8 is trusted", "the observer sees the file only through public getters (DESIGN 3.3)",
              "ids are compared raw inside one trace and symbolically (#k) for state de-duplication"]

PROPS["C02"] = dict(
    level="model_checking",
    budget_s=dict(quick=300, thorough=2400),
    parts=[dict(name="histories", bin="C02", flavour="plain", resume_mode="skip", max_crashes=3)],
    extra_bins=["obsdump"],
    manifest=dict(
        engine="E1", design_ref="5 / C02",
        technique="explicit-state BFS over API operation histories on the real library; differential oracle: observation before close == after reopen RO == RW == other process",
        text="Breadth-first exploration of operation histories over the entity-graph alphabet (about 90 operation instances at level 1, 190 at "
             "level 2, plus REOPEN) from the empty file (depth 4 quick / 5 thorough) and from two rich seed files (depth 1 / 2), de-duplicated "
             "by the canonical observation. On every transition the full observation (all entities, attributes, links, descriptors, data, "
             "creation times, lookup agreement) taken in the writing session is compared with the one after close+reopen ReadOnly, ReadWrite and, "
             "for every new state, with the one a separate process (fork+exec) makes. States carry a fresh/same-session flag so histories with and "
             "without intermediate reopen are both covered. The other process runs in another time zone, locale environment and working directory than the writer; every new state is additionally reopened ReadOnly and ReadWrite through a symbolic link, a hard link and a path with ./ and ../ components, and once more under the original path afterwards. Chained operations do several growth steps through ONE array handle that stays alive while close() runs; what that handle shows after the step must equal what a fresh handle shows.",
        note="No reference model is needed: the oracle is differential. updated_at is not part of the statement and is excluded. Bounded by depth and "
             "by the name pools of the alphabet (DESIGN appendix A)."),
    evidence=dict(
        keys=dict(states=("distinct", "states"), transitions=("count", "transitions"), traces_validated_against_impl=("count", "traces"),
                  evaluations=("count", "observations_compared"), distinct_nontrivial=("distinct", "nontrivial")),
        rule="BFS over histories; a transition = one enabled, accepted operation applied to a state re-materialised from its seed file; "
             "distinct_nontrivial = distinct (state before -> state after) pairs whose observation changed.",
        bound=dict(quick="empty seed: level-1 alphabet depth 4; seeds R1,R2: full alphabet depth 1", thorough="empty seed: level-1 alphabet depth 5; seeds R1,R2: full alphabet depth 2"),
        assumptions=_E1_ASSUME,
    ),
)

PROPS["C03"] = dict(
    level="model_checking",
    budget_s=dict(quick=300, thorough=1200),
    parts=[dict(name="containers", bin="C03", flavour="plain", budget_share=0.9),
           dict(name="has_by_handle", bin="C04x", flavour="plain", shards=4, args=dict(quick=["--family=has"], thorough=["--family=has"]))],
    manifest=dict(
        engine="E1", design_ref="5 / C03",
        technique="exhaustive enumeration of create/delete/reopen sequences per container kind on the real library against an ordered-list reference model",
        text="For each of 17 container kinds (11 owning, 6 link containers) every sequence up to depth 3 (quick) / 4 (thorough) over "
             "create(name from an adversarial pool incl. case/blank variants, '..', UTF-8, UUID-shaped, 200-byte names), delete(first/last/middle child "
             "by name/id/handle) and REOPEN is executed on a fresh file, from an empty and from a pre-populated container; after every "
             "step count, enumeration, index/name/id lookups, has-queries by name/id/handle and absence of absent names are compared with "
             "the ordered-list model (creation order; duplicates rejected). Second part (props/C04x.cpp, family has): every has*(const Entity&) "
             "overload is asked about a handle that is NOT a member but carries the name of one (entity of the other block, deeper level of the same "
             "tree, feature of another tag) and about a real member, in the creating session and after REOPEN: the answer must be false / true and the file unchanged. Every question is asked twice: through a freshly fetched parent and through a witness parent handle that was obtained, and asked the same questions, before the steps of the trace (re-obtained after REOPEN).",
        note="Whether a legal-looking name is accepted is not asserted (only that what exists is consistent and a rejected create changes "
             "nothing). Entity sources are addressed by id only (no by-name API)."),
    evidence=dict(
        keys=dict(states=("distinct", "states"), transitions=("count", "transitions"), traces_validated_against_impl=("count", "traces"),
                  evaluations=("count", "lookups"), distinct_nontrivial=("distinct", "states")),
        rule="DFS over all step sequences (alphabet: |pool| creates + 9 deletes + REOPEN) per container kind and seed; each prefix is a trace; "
             "states = distinct (container kind, ordered name list) model states reached.",
        bound=dict(quick="depth 3, name pool of 6, seeds {empty, 2 children}", thorough="depth 4, name pool of 8"),
        assumptions=_E1_ASSUME,
    ),
)

PROPS["C08"] = dict(
    level="model_checking",
    budget_s=dict(quick=300, thorough=1200),
    parts=[dict(name="catalogue", bin="C08", flavour="plain")],
    manifest=dict(
        engine="E1", design_ref="5 / C08",
        technique="explicit-state BFS builds the reachable-state corpus on the real library; in every state every entry of a rejection catalogue is attempted; oracle: observation before == after (same session and after reopen)",
        text="The corpus of file states is generated by breadth-first exploration of the entity alphabet (empty seed to depth 3 quick / 4 thorough, "
             "plus two rich seeds and, in thorough, their successors). In each state each of ~150 catalogue calls (duplicate / empty / slash names, empty "
             "types, unknown or foreign link targets, mismatching shapes and element types, unsorted ticks, non-SI units, non-positive intervals, "
             "unsupported element types, out-of-range indices and offsets) is attempted on the first entity of the addressed kind; whenever the call throws, "
             "the complete observation through fresh handles must equal the one taken before the call, and again after close+reopen. Stale-link-target scenarios (16 link operations x 2 seeds): the target is linked and unlinked through the kept holder handle, deleted through another handle, then linked again by id and by the stale handle - if refused, nothing may change (same session and after reopen). Duplicate creations also under the name of the LAST entity of a container (seed R3 carries entities with id-shaped names); Group::multiTags(vector with a foreign multi-tag).",
        note="A call that unexpectedly succeeds is not a C08 matter and is only counted. The catalogue is hand-written (DESIGN 3.11). Empty HDF5 container "
             "groups left behind are not observable through the API and are ignored."),
    evidence=dict(
        keys=dict(states=("distinct", "states"), transitions=("count", "calls"), traces_validated_against_impl=("count", "calls_rejected"),
                  evaluations=("count", "calls"), distinct_nontrivial=("distinct", "rejected_in_state")),
        rule="states = corpus states (distinct canonical observation + session op multiset); a transition = one catalogue call attempted in one state; "
             "distinct_nontrivial = distinct (catalogue entry, state) pairs in which the call was actually rejected with an exception.",
        bound=dict(quick="corpus: empty seed level-1 alphabet depth 3; seeds R1, R2, R3; full catalogue (+ ReadOnly pass over the entity alphabet) in every state", thorough="empty seed depth 4; R1, R2 and all their level-2 successors"),
        assumptions=_E1_ASSUME,
    ),
)

PROPS["C09"] = dict(
    level="model_checking",
    budget_s=dict(quick=300, thorough=1200),
    parts=[dict(name="modes", bin="C09", flavour="plain")],
    manifest=dict(
        engine="E1", design_ref="5 / C09",
        technique="state corpus by explicit-state BFS on the real library; every alphabet call attempted in a ReadOnly session, classified as mutating by a differential ReadWrite run; byte comparison; exhaustive header-defect x mode x compression enumeration",
        text="For every corpus file (BFS over the full entity alphabet from the empty file, plus rich seeds and, in thorough, their successors): opened ReadOnly it "
             "shows exactly what was written; each of the ~190 alphabet operations (plus forceId/forceCreatedAt/forceUpdatedAt) is attempted; an operation that "
             "changes the observation (incl. updated_at) when run on a ReadWrite copy of the same state must throw on the ReadOnly file; afterwards the file's "
             "bytes are identical. ReadWrite reopen preserves the observation, a missing path is created empty; Overwrite yields the observation of an empty file, "
             "reopenable in both modes. 13 header defects (missing/wrong format, version, id; plain HDF5; non-HDF5; empty; truncated) x {ReadOnly, ReadWrite} x both "
             "compression defaults x 2 base files must be refused, and ReadOnly must not change their bytes or create a missing path. ReadOnly+Force: a missing path and a dangling symbolic link stay refused and nothing is created; on every defect file it changes no byte and creations in it fail. 11 near-miss values of the format hint ('nix' + more, more + 'nix', beginnings, blank-padded, other case) must be refused.",
        note="'Mutating in state S' is defined differentially by the library's own ReadWrite behaviour, so no catalogue classification is hand-written. "
             "flush() and close() are not mutators. Quick runs the second compression default on a quarter of the states."),
    evidence=dict(
        keys=dict(states=("distinct", "states"), transitions=("sum", [("count", "readonly_calls"), ("count", "differential_runs"), ("count", "open_attempts")]),
                  traces_validated_against_impl=("count", "differential_runs"),
                  evaluations=("sum", [("count", "readonly_calls"), ("count", "open_attempts"), ("count", "byte_comparisons"), ("count", "observations_compared")]),
                  distinct_nontrivial=("distinct", "outcomes")),
        rule="states = corpus states; per state: all alphabet calls on a ReadOnly copy + one differential ReadWrite run per enabled call + RW/Overwrite reopen checks; "
             "header defects: 13 defects x 2 modes x 2 compression defaults x 2 base files; distinct_nontrivial = distinct (call or defect, mode, outcome) tuples.",
        bound=dict(quick="corpus: empty seed level-1 alphabet depth 3 + seeds R1, R3", thorough="empty seed full alphabet depth 3; R1, R3 and all their successors"),
        assumptions=_E1_ASSUME + ["byte identity is checked by comparing the whole file content before and after the ReadOnly session"],
    ),
)

PROPS["C04"] = dict(
    level="model_checking",
    budget_s=dict(quick=300, thorough=3600),
    parts=[dict(name="graphs", bin="C04", flavour="plain", budget_share=0.9),
           dict(name="foreign_handles", bin="C04x", flavour="plain", shards=4, args=dict(quick=["--family=delete"], thorough=["--family=delete"]))],
    manifest=dict(
        engine="E1", design_ref="5 / C04",
        technique="exhaustive enumeration of link subsets (size <= k of a 31-link menu) x victim x delete mode x reopen variant on the real library; reference model = structured observation before the delete with the victim's subtree and all links to it removed",
        text="Base graph with every entity kind (2 blocks, 3 arrays, frame, 2 tags, multi-tag, group, source tree s1>(s2>s3, s2b>s3b), s5, section tree, property). "
             "Every subset of at most k links (k=2 quick, 3 thorough; plus the all-links graph) out of 31 link options of every supported kind, with reopen "
             "none / after all links / after the first link; then each of 22 victims is deleted by name, by id and by handle through its owner. The "
             "observation after the delete (same session and after reopen) must equal the model; lookups by the old name/id must find nothing; old "
             "handles of the victim (and of all nodes of a deleted source/section subtree) must report invalid or throw. Second part (props/C04x.cpp, "
             "family delete): every delete*(const Entity&) overload is handed a handle that does not belong to the container it is called on but "
             "carries the name of a member (other block, deeper level of the same tree, other tag): it must refuse and leave the whole observation as it "
             "was; handed a real member it must delete it; both in the creating session and after REOPEN, and the result must survive a reopen. Owner handles obtained before the deletion and already asked about the victim's id are asked again after it; in the 0-/1-link graphs and the all-links graph an entity is then re-created under the victim's name: the old id must resolve to nothing (fresh owner, kept owner, kept owner unused in between), old handles stay invalid, deletion by the old id removes nothing. Link menu incl. an alias array with a further descriptor. A SECOND deletion follows in the same session: an entity at the other end of a link of the first victim's family is deleted too (the first victim's handles dropped / still alive, alternating); handles of it taken before both deletions must report invalid and the state must equal the model.",
        note="'Does not expose' accepts none or an exception from a holder whose target is gone. Handles to entities that merely lived inside the victim "
             "(arrays of a deleted block, properties of a deleted section) are not constrained by the statement."),
    evidence=dict(
        keys=dict(states=("distinct", "scenarios"), transitions=("count", "deletions"), traces_validated_against_impl=("count", "traces"),
                  evaluations=("count", "observations_compared"), distinct_nontrivial=("distinct", "outcomes")),
        rule="scenario = (link subset, reopen variant, victim, delete mode); states = distinct scenarios executed; distinct_nontrivial = distinct (victim kind, mode, "
             "kinds of incoming links that pointed at the removed ids, verdict) tuples.",
        bound=dict(quick="k<=2 (497 graphs + all-links), one reopen variant per graph (rotating), 22 victims x 3 modes", thorough="k<=3 (4992 graphs), all 3 reopen variants"),
        assumptions=_E1_ASSUME,
    ),
)

PROPS["C14"] = dict(
    level="model_checking",
    budget_s=dict(quick=300, thorough=1500),
    parts=[dict(name="properties", bin="C14", flavour="plain")],
    manifest=dict(
        engine="E1", design_ref="5 / C14",
        technique="exhaustive DFS over operation sequences on one Property per (value type x createProperty overload), replayed on fresh files, against a typed-value reference model",
        text="For each of 7 value types and 3 creation overloads every sequence up to depth 3 (quick) / 4 (thorough) over 19 operations (assign own-type vectors of "
             "length 0/1/2/3/64 with extremes, NaN payloads, +-inf, -0.0, empty/300-char/UTF-8 strings; wrong-type and mixed vectors; deleteValues; values(none); "
             "unit set/de-blanked/other/empty/none; uncertainty; definition; REOPEN) is replayed on a fresh file; after the last step values (type and bit pattern), "
             "valueCount, dataType, unit, uncertainty and definition are compared with the model through the handle kept since creation, a fresh handle and after "
             "close+reopen. Rejected operations must throw and leave a bitwise identical observation. A second length-3 vector per type differs from the first in one element only (for Double: the sign of a zero), so equal-looking re-assignments are in every sequence.",
        note="A property created from a DataType has an unspecified value list until the first assignment (the library writes 8 defaults). unit('') may either throw or "
             "remove the unit (the repository's suite pins the latter)."),
    evidence=dict(
        keys=dict(states=("distinct", "states"), transitions=("count", "transitions"), traces_validated_against_impl=("count", "traces"),
                  evaluations=("count", "getter_calls"), distinct_nontrivial=("distinct", "outcomes")),
        rule="DFS with replay on a fresh file per (value type of 7) x (createProperty overload of 3): part A all sequences up to depth D over 19 letters; part B all sequences up to "
             "depth D-1 containing one of 5 extended letters. Each prefix is a trace. states = distinct (type, model value list or 'unspecified', unit, uncertainty, definition, "
             "fresh-session flag); distinct_nontrivial = distinct (type, creation overload, last operation, value list defined/unspecified, accepted or exception class) tuples.",
        bound=dict(quick="D=3", thorough="D=4"),
        assumptions=_E1_ASSUME,
    ),
)

PROPS["C20"] = dict(
    level="exploration",
    budget_s=dict(quick=300, thorough=1500),
    parts=[dict(name="trees", bin="C20", flavour="plain")],
    manifest=dict(
        engine="E2", design_ref="5 / C20",
        technique="exhaustive enumeration of all ordered forests up to n nodes x starts x filters x depth limits on real section/source trees against a queue-based BFS of the harness model; all link assignments up to k for back references",
        text="Every ordered forest with at most n nodes (n=6 quick / 8 thorough; <=5 levels, <=4 children) is built as a section tree and as a source tree; every start "
             "(container and every node) x every filter (accept-all in all call forms, id, name, type, id-set) x every depth limit 0..levels+1 and the default is compared with a "
             "brute-force BFS (set equality, each entity once; exact breadth-first order for single-node starts). After creating/deleting nodes the queries are repeated through "
             "handles obtained before the change and fresh ones. Back references: every assignment of <=k metadata/source links from 11 holders, all referring* variants and "
             "parentSource vs the inverse link relation, before and after deleting each node. inheritedProperties for all subset pairs of {p,q,r} with shadowing, link-of-link "
             "and creation orders. parentSource is also asked through the Source handles that arrays, tags and multi-tags hand out (sources() / getSource(id)). Filters are prepared from key variables that are overwritten before the search.",
        note="The depth-limit origin per entry point is not part of the statement; it is fixed as the repository's tests pin it and probed on 1-3 node chains (case 0/1). "
             "Order of File::/Block:: searches and of referring* lists is not asserted. findRelated is excluded."),
    evidence=dict(
        keys=dict(evaluations=("sum", [("count", "queries"), ("count", "backref_queries"), ("count", "inherited_checks")]), distinct_nontrivial=("distinct", "outcomes")),
        rule="(0) depth-origin convention on chains; (1) unit-test fixtures; (2) every ordered forest <= n nodes x {section tree, source tree} x start x filter x max_depth; "
             "modifications (create/delete each node) with old and fresh handles; (3) forests <= nb nodes x every assignment of <= k links; (4) inherited properties over all "
             "subset pairs. distinct_nontrivial = distinct (tree kind, entry point, filter kind, depth class, result size class, phase, deviation) tuples.",
        bound=dict(quick="search n<=6 (187 forests), modifications n<=5; back references <=3 nodes, k<=2", thorough="search n<=8 (1744 forests), modifications n<=7; back references <=3 nodes k<=3, 4 nodes k<=2"),
        assumptions=["depth-limit origin per entry point as pinned by the unit tests", "siblings are enumerated in creation order (C03)", "a byte copy of a flushed file is a valid file (checked)"],
    ),
)

PROPS["C19"] = dict(
    level="exploration",
    budget_s=dict(quick=300, thorough=2400),
    parts=[dict(name="validator", bin="C19", flavour="plain")],
    manifest=dict(
        engine="E2", design_ref="5 / C19",
        technique="exhaustive enumeration of generated conforming files x breach catalogue (every kind x variant x entity, singly and in pairs) validated by the real validator; oracle: multiset difference of (entity id, message) errors",
        text="Conforming files covering all 84 descriptor-kind combinations (rank 1-3) plus a 1-D alias-range-dimension array per block, with tags, multi-tags, features, sources and unit-carrying properties must validate without "
             "error. Every hard breach (descriptor count, tick/label/row count, unsorted ticks, non-positive interval, unit mismatch per dimension position from tag and from "
             "array side, deleted positions, deleted feature data) is injected at every applicable entity alone (quick) and in all non-conflicting pairs (thorough) into an id-"
             "preserving copy; the breached entity must draw an error that the file without that breach does not have. Soft breaches must add no error (and a warning where a rule exists).",
        note="'Conforming' is read strictly per docs/validation.rst. Unsorted ticks and bad intervals are planted through the HDF5 C API because the public entry points reject them. "
             "Equal adjacent ticks and a missing array unit are statistics only."),
    evidence=dict(
        keys=dict(evaluations=("sum", [("count", "breached_entities_checked"), ("count", "soft_checks"), ("count", "conforming_files")]), distinct_nontrivial=("distinct", "outcomes")),
        rule="case = (file, chunk of 8 breach sites); every hard breach (kind x variant x entity) and soft breach injected alone, thorough also every non-conflicting pair (all pairs on 32 "
             "files, related pairs elsewhere); file reopened ReadOnly and File::validate() called; distinct_nontrivial = distinct (breach kind set -> new error messages / soft outcome).",
        bound=dict(quick="k<=1 on 32 files (about 4.2k breach instances)", thorough="k<=2 on 284 files (35.8k singles, 259k pairs)"),
        assumptions=["HDF5 dataset/attribute I/O is correct for planting ticks and intervals", "conflicting breach pairs (same attribute, or one removes the other's target) are excluded"],
    ),
)

PROPS["C11"] = dict(
    level="fault_enumeration",
    budget_s=dict(quick=300, thorough=2700),
    parts=[dict(name="crash_and_handles", bin="C11", flavour="plain")],
    extra_bins=["obsdump"],
    manifest=dict(
        engine="E3", design_ref="5 / C11",
        technique="exhaustive enumeration of crash points (SIGKILL of a real writer process right after flush()/close() returned) over a BFS corpus of histories, and of live-handle populations at close(); recovery observed from other processes",
        text="(a) For every state of the BFS corpus (empty seed, level-1 alphabet, depth 3 quick / 4 thorough; rich seed R1 and its successors in thorough) and every enabled operation, "
             "a child process replays the history in one session, flushes (after every step, or once at the end) or closes, records its observation and SIGKILLs itself; the "
             "parent reopens ReadOnly and ReadWrite and must see exactly that observation. (b) Every population of at most 2 of 16 handle kinds (thorough: ~10k subsets), the full "
             "set and a 40-fold population is kept alive across close(): another process must be able to open the file ReadWrite (HDF5 write lock), the same process must reopen "
             "ReadOnly and with Overwrite, ~100 methods of the stale handles must all throw, and the file's bytes must not change. Crash variant 3: the flush happens while the file may not grow (RLIMIT_FSIZE, as on a full disk) - a refused flush promises nothing, an acknowledged one must leave a complete file. (d) One path open through TWO File objects, closed in either order with handles of either kept: released, complete, stale handles throw.",
        note="Process death only (the page cache survives): no torn writes; modifications after the last flush promise nothing and are not generated. Methods that answer from "
             "memory (DataView::dataExtent, Dimension::index) are not required to throw."),
    evidence=dict(
        keys=dict(evaluations=("sum", [("count", "reopens_after_kill"), ("count", "release_checks"), ("count", "stale_calls")]), distinct_nontrivial=("distinct", "histories"),
                  crash_points=("count", "crash_points"), handle_populations=("distinct", "populations")),
        rule="crash point = (corpus state, next operation, variant {flush at end, flush after every step, close}) with SIGKILL immediately after the flush/close returned; quick runs "
             "one variant per (state, operation), rotating. distinct_nontrivial = distinct histories that reached a crash point. Handle populations: subsets of 16 kinds.",
        bound=dict(quick="corpus depth 3 (level-1 alphabet) x every enabled op x 1 variant; populations of size <=2, full, 40-fold", thorough="corpus depth 4 x 3 variants; R1 successors; ~10k populations"),
        assumptions=["SIGKILL models process death; the OS page cache survives", "HDF5's flock-based exclusion is what makes 'another process can open ReadWrite' observable"],
    ),
)

PROPS["C15"] = dict(
    level="model_checking",
    budget_s=dict(quick=300, thorough=1800),
    parts=[dict(name="frames", bin="C15", flavour="plain")],
    manifest=dict(
        engine="E1", design_ref="5 / C15",
        technique="exhaustive DFS over write/resize/reopen sequences per column schema on the real library, replayed on fresh files, against a grid reference model; all read paths compared on every trace",
        text="For each of 17 column schemas (all single-type schemas of 1 and 2 columns over the 7 cell types, two mixed 3-column and one mixed 8-column schema with units) and two "
             "seeds (empty frame, 2 written rows) every sequence up to depth 3/2 (quick) or 4/3 (thorough) over rows(n), writeRow, writeCell, writeCells by name/index, writeColumn "
             "with offset/count inside, touching and past the end, and REOPEN is replayed on a fresh file. After the last step every cell is read through readRow, readCell by index "
             "and name, readCells, and readColumn in 7 variants, through a handle kept since creation and a fresh one, and compared with the grid model (doubles bitwise, sentinel-"
             "pre-filled buffers); schema getters are compared too. Past-the-end column writes must throw and change nothing. A further 4-column schema has names that prefix one another in both orders (time_ms/time, lab/label) with four cell types and units containing blanks, 'mu' and a micro sign.",
        note="Values of a foreign type and rows with too few/many values are outside the statement and not generated. Bool columns go through row/cell access only "
             "(std::vector<bool> has no data())."),
    evidence=dict(
        keys=dict(states=("distinct", "states"), transitions=("count", "transitions"), traces_validated_against_impl=("count", "traces"),
                  evaluations=("count", "read_calls"), distinct_nontrivial=("distinct", "states")),
        rule="DFS over all sequences of the schema's step alphabet (14-41 steps); every prefix is a trace replayed on a fresh file; states = distinct (schema, rows x columns "
             "written/unwritten mask) model states.",
        bound=dict(quick="depth 3 from the empty frame, depth 2 from the 2-row seed", thorough="depth 4 / depth 3"),
        assumptions=_E1_ASSUME,
    ),
)

PROPS["C12"] = dict(
    level="model_checking",
    budget_s=dict(quick=300, thorough=1500),
    parts=[dict(name="ids", bin="C12", flavour="plain", resume_mode="skip", max_crashes=3)],
    extra_bins=["idhelper"],
    manifest=dict(
        engine="E1", design_ref="5 / C12",
        technique="explicit-state BFS over creation/deletion histories checking id invariants on every transition; exhaustive enumeration of multi-process (and multi-thread) schedules with every clock the id generator could read owned by the harness",
        text="(a) On every transition of a BFS over the entity alphabet (empty seed depth 3/4, rich seed R1 depth 1 with the full alphabet incl. UUID-shaped names) every observable id "
             "must be a well-formed non-nil UUID, all ids pairwise distinct, ids of surviving entities (same kind and path) unchanged (forceId on the file excepted) and new ids different "
             "from all ids that existed before the step. (b) Schedules: 2-3 real processes (fork+exec, fresh generator each) - and two threads of one process - run every pair of creation "
             "histories (length <= 2 quick / 3 thorough over block, section, array, property, feature, ...) on the same file in orders A-B, A-B-A, A-B-C or on different files, for every "
             "assignment of start times from {T,T,T+1}; time(), gettimeofday() and clock_gettime() of the helper return the assigned value, so 'same second' (and same nanosecond) is forced. "
             "All ids of a schedule must be pairwise distinct and well-formed. (b'') Participants that open an existing file with no free file descriptor left when their first id is drawn (RLIMIT_NOFILE 0; a refused creation is accepted). (c) The ids of a rich file across forced ReadOnly / ReadWrite opens under 12 stored format versions, in the forced and in the following session. Seed R3 (two blocks) with the alphabet's link attempts across blocks. A population of 400 000 ids of one process is pairwise distinct and well-formed (population bound, see DESIGN 10.11).",
        note="Real pids are left alone. Collisions of genuinely random 122-bit ids are outside any bounded check; what is decided is that ids do not become equal because of the schedule or history."),
    evidence=dict(
        keys=dict(states=("distinct", "states"), transitions=("count", "transitions"), traces_validated_against_impl=("sum", [("count", "traces"), ("count", "schedules")]),
                  evaluations=("count", "ids_checked"), distinct_nontrivial=("distinct", "outcomes"), schedules=("count", "schedules")),
        rule="(a) BFS transitions with id invariants; (b) schedule = (participants, clock assignment, session order, same/different file, history per participant); "
             "distinct_nontrivial = distinct (operation, entity count delta) outcomes of (a).",
        bound=dict(quick="(a) empty seed level-1 depth 3, R1 full alphabet depth 1; (b) P<=3, histories of length <=2 over 5 kinds, 12 schedules + thread variant", thorough="(a) depth 4; (b) histories length <=3 over 8 kinds, 16 schedules"),
        assumptions=_E1_ASSUME + ["std::random_device is not interposed (it reads the kernel's entropy source, not a clock)"],
    ),
)

PROPS["C17"] = dict(
    level="exploration",
    budget_s=dict(quick=300, thorough=1500),
    parts=[dict(name="slices_and_views", bin="C17", flavour="plain")],
    manifest=dict(
        engine="E2", design_ref="5 / C17",
        technique="exhaustive grids: (a) array configuration x start/end vectors of every length x candidates on/beside/between/outside the coordinates x modes against a linear-scan reference; (b) every DataView window x every request (and all write->read request pairs) against a cell model of the underlying array",
        text="(a) dataSlice on arrays of rank 1-3 over 20 descriptors (all kind pairs/triples), start/end of every length 0..rank+1 and of different lengths (only start / only end given), full candidate products on rank 1 and reduced "
             "sets on rank 2-3, Inclusive / Exclusive / default, with and without units equal to the dimension's; extent and full content compared with the reference, or an exception "
             "expected. (b) DataView on 3x4 and 2x3x2: every window incl. illegal ones, every request (count 0..w+1, offset 0..w, omitted offset, wrong rank) through raw and typed "
             "getData/setData, and for 3x4 all write-then-read pairs; the whole array is compared with the model after every operation and rejected requests must leave array and "
             "(sentinel-filled) buffer untouched.",
        note="Exclusive slices with start == end exactly on a coordinate return that element: the repository's test suite pins it (BaseTestDataAccess.cpp:760), so it is a listed known "
             "finding rather than a fix. Zero-count requests are only asserted to transfer nothing."),
    evidence=dict(
        keys=dict(evaluations=("sum", [("count", "slices"), ("count", "view_reads"), ("count", "view_writes"), ("count", "constructions")]), distinct_nontrivial=("distinct", "outcomes")),
        rule="(a) grid of array configurations x modes x start/end tuples vs linear-scan reference over library-reported coordinates; (b) every window x every request, whole-array "
             "compare with the model after every operation; distinct_nontrivial = distinct (axis kinds, length, mode, expected class, outcome) and (rank, call site, request class, outcome) tuples.",
        bound=dict(quick="about 280k slices (44k with start/end of different lengths, 111k with units); 101k view requests x 4 forms; 164k write->read pairs on small windows", thorough="3713 cases: all (Ls,Le) on every configuration; pairs on all windows"),
        assumptions=["doubles compared exactly", "axis coordinates are those the library reports"],
    ),
)

PROPS["C16"] = dict(
    level="model_checking",
    budget_s=dict(quick=300, thorough=1800),
    parts=[dict(name="misuse", bin="C16", flavour="asan", max_crashes=60, budget_share=0.55)] +
          # thorough tier: the other properties' harnesses (quick bounds) under ASan/UBSan + shim; only crashes / sanitizer reports count here
          [dict(name="asan_" + b, bin=b, flavour="asan", tiers=("thorough",), crash_only=True, args=dict(thorough=["--tier=quick"]), budget_share=0.08, max_crashes=10)
           for b in ("C05", "C06", "C13", "C14", "C15", "C17", "C19", "C20")],
    manifest=dict(
        engine="E1", design_ref="5 / C16",
        technique="exhaustive enumeration of misuse programs (state x call, and ordered call pairs) on the real library under ASan+UBSan with an instrumented HDF5 boundary shim, libstdc++ assertions and the boost assert handler; crash sandbox attributes every report to its program",
        text="A data-access world (arrays of rank 1-3 with every descriptor kind, tags / multi-tags with fewer, equal and more position entries than dimensions, empty and "
             "too-narrow positions arrays, never-written String data, frames with unwritten rows, features and positions whose arrays were deleted) is built; each of ~500 misuse "
             "calls (wrong ranks, zero counts, offsets at/past the extent, 2^64-1, indices past the end, slices with 0..rank+1 entries, NaN/inf positions, default-constructed, "
             "deleted-entity and closed-file handles, odd unit strings, Variant/NDSize/NDArray edge calls, validation) runs alone on a ReadWrite and on a ReadOnly copy, and in ordered "
             "pairs (quick: a systematic 1/16 sub-grid plus all stateful-first pairs /4; thorough: all pairs). Every call must return or throw a C++ exception: any ASan/UBSan report, "
             "shim contract breach (HDF5 touching bytes outside a buffer nix handed to it), libstdc++/boost assertion, signal or std::terminate is a violation. 42 legal two-handle programs: an entity is read through handle h1, grown or shrunk through a second handle (or through the array behind an alias dimension), then read through h1 at old and new indices (range ticks, alias ticks, set labels, array extent, data-frame rows, property values, multi-tag positions). Typed std::vector targets with count vectors of every shape through arrays and views; multi-tags without positions carry features and are asked through every single-position featureData spelling incl. the deprecated ones.",
        note="No uninitialised-read detection (MSan would need an instrumented libhdf5/boost). The other checks also run crash-sandboxed; their ASan runs are part of the thorough tier of C16."),
    evidence=dict(
        keys=dict(states=("distinct", "outcomes"), transitions=("count", "calls"), traces_validated_against_impl=("count", "programs"),
                  evaluations=("count", "calls"), distinct_nontrivial=("distinct", "outcomes")),
        rule="program = one misuse call (x {ReadWrite, ReadOnly} world) or an ordered pair of misuse calls on the ReadWrite world; distinct_nontrivial = distinct (call, outcome class: returns / exception type) pairs.",
        bound=dict(quick="bound 1: all calls x 2 modes; bound 2: 1/16 sub-grid of ordered pairs + stateful-first pairs", thorough="bound 2: all ordered pairs"),
        assumptions=["what ASan, UBSan, _GLIBCXX_ASSERTIONS, BOOST_ENABLE_ASSERT_HANDLER and the HDF5 boundary shim can see", "libhdf5 itself is not instrumented"],
    ),
)

PROPS["C13"] = dict(
    level="model_checking",
    budget_s=dict(quick=300, thorough=1800),
    parts=[dict(name="descriptors", bin="C13", flavour="plain")],
    manifest=dict(
        engine="E1", design_ref="5 / C13",
        technique="exhaustive DFS over append/modify/delete/reopen sequences per array configuration on the real library, replayed on fresh files, against an ordered descriptor-list reference model; five access paths compared after every trace",
        text="For 9 array configurations (rank 1 x {Double, Int32, UInt8, String, Bool}, rank 2-3 x {Double, Int32}) every sequence up to depth 3 (thorough: core letters depth 4) over "
             "24-80 letters (append set/sampled/range/alias/data-frame with legal and illegal arguments, deprecated create*Dimension, all setters and none-setters, array "
             "unit/label/setData/dataExtent/appendData, deleteDimensions, REOPEN) is replayed on a fresh file. Steps alternate between handles kept alive since creation and "
             "fresh ones; kept handles are read after every step; after the last step kept handles, getDimension(i), dimensions(), a fresh array handle and a ReadOnly reopen are "
             "compared with the model (count, kinds, every attribute, none below 1 and above n). In every state ticks are sorted and intervals positive; illegal calls either throw "
             "and change nothing or store a legal state; alias dimensions mirror the array in both directions and their preconditions are enforced. A data frame of another block that carries the name of a local frame is offered as dimension: refused without trace, or read back as the frame that was given.",
        note="Unsorted data written through the ARRAY of an alias is not asserted under the sortedness clause (mirroring wins); unsorted ticks written through the alias dimension are."),
    evidence=dict(
        keys=dict(states=("distinct", "states"), transitions=("count", "transitions"), traces_validated_against_impl=("count", "traces"),
                  evaluations=("count", "getter_calls"), distinct_nontrivial=("distinct", "outcomes")),
        rule="DFS with replay on a fresh file per array configuration; each prefix is a trace, not extended past a step that threw or after which something is wrong; states = distinct "
             "(configuration, descriptor list with all attributes, array label/unit/data, fresh-session flag); distinct_nontrivial = distinct (configuration, operation, input class, step class, outcome).",
        bound=dict(quick="D=3, Dc=3", thorough="D=3 with larger alphabets, Dc=4 for rank <= 2"),
        assumptions=_E1_ASSUME,
    ),
)

PROPS["C01"] = dict(
    level="model_checking",
    budget_s=dict(quick=300, thorough=1800),
    parts=[dict(name="arrays", bin="C01", flavour="plain")],
    manifest=dict(
        engine="E1", design_ref="5 / C01",
        technique="exhaustive DFS over write/append/resize/calibration/reopen sequences per (element type, rank, compression, initial extent) on the real library, replayed on fresh files, against a cell-vector reference model; every sub-hyperslab read back",
        text="For 12 element types x rank 1-4 x {None, DeflateNormal, file-level Auto} every sequence up to depth 3 (deeper for selected types at low rank in thorough) over W_full, "
             "W_extremes, W_cell(first/last), W_slab, Append, Grow, Shrink, SetWhole(+-1), Poly, Origin, Unset*, REOPEN is replayed on a fresh file; writes alternate between untyped "
             "and typed (vector, T[N], multi_array, scalar) overloads and between a kept and a fresh handle. After the last step every sub-hyperslab (all while axes <= 3) is read into "
             "sentinel-pre-filled buffers through getData, getDataDirect and typed reads and compared bitwise with the model; calibrated and cross-type reads are compared where the "
             "expected value is exactly representable. A large-array family (3000 elements, three compressions, sparse writes around chunk boundaries, reused dirty buffers) checks that "
             "never-written regions read as zero. A large-region family (arrays of 3000 and 40x60 elements of Double / Int32 / Int16 holding their linear index; regions of more than 1024 elements starting at and behind the first row, full and partial rows) is read raw and calibrated as Double, Float, Int64, Int32, Int16, UInt16, before and after REOPEN. Blocks of zeros of more than 8 KiB are written over stored non-zero data (Double, Int32, Int16, UInt8 x three compression settings, rank 1 and 2) and read back before and after REOPEN.",
        note="Out-of-range cross-type conversion is don't-care; Bool/String read as numeric may throw. Strings with embedded NUL are not generated."),
    evidence=dict(
        keys=dict(states=("distinct", "states"), transitions=("count", "transitions"), traces_validated_against_impl=("count", "traces"),
                  evaluations=("count", "read_calls"), distinct_nontrivial=("distinct", "outcomes")),
        rule="DFS over all sequences of the configuration's extent-relative alphabet (8-28 letters); every prefix is a trace replayed on a fresh file; states = distinct (T, rank, "
             "compression, initial extent, extent, written mask, calibration) model states; distinct_nontrivial = distinct (operation + write path, T, outcome) tuples.",
        bound=dict(quick="depth 3, reduced alphabet, 50 configurations + 18 large-array cases", thorough="12 T x rank 1-4 x 3 compressions depth 3; depth 4-5 for selected types at rank <= 2"),
        assumptions=_E1_ASSUME,
    ),
)

_GRID_NOTE = ("Reference region = linear scan over the coordinates the library reports; p+e evaluated in double as the library does. Units are left to C18. "
              "Known finding (listed): with RangeMatch::Exclusive the last element of a dimension the tag does not specify is dropped - pinned by the repository's "
              "testFlexibleTagging, see DESIGN 10.5.")

PROPS["C05"] = dict(
    level="exploration",
    budget_s=dict(quick=300, thorough=1500),
    parts=[dict(name="tags", bin="C05", flavour="plain")],
    manifest=dict(
        engine="E2", design_ref="5 / C05",
        technique="exhaustive input grid: array configurations (rank 1-3, every descriptor-kind combination, parameter families) x position/extent candidates on, one ulp beside, between and outside the coordinates x modes x entry points, against a reference region transcribed from the statement",
        text="One Tag is re-stored over the product of per-axis candidates (every coordinate, +-1 ulp, midpoints, below, above, beyond the data; extents absent, 0, negative and every e "
             "with p+e on a candidate; 0..rank+1 position entries) on arrays whose cell value is its linear index. Tag::taggedData, util::taggedData, getOffsetAndCount and featureData "
             "(index, name, id, handle; Tagged / Untagged / Indexed) in both modes and with the defaults are compared with the reference block (extent and full content read into a "
             "sentinel-filled buffer) or must raise. Every tag is also retrieved through the deprecated retrieveData / retrieveFeatureData spellings (rotation). After the grid the axes of the referenced array and of the tagged feature are changed IN PLACE (ticks 2t+0.75; interval doubled, offset +0.75) and the tags with as many entries as dimensions are evaluated again against the new coordinates.",
        note=_GRID_NOTE),
    evidence=dict(
        keys=dict(evaluations=("sum", [("count", "retrievals"), ("count", "getOffsetAndCount_calls")]), distinct_nontrivial=("distinct", "outcomes")),
        rule="case = one array configuration; inside: product of per-axis position/extent candidates (rank 1 full, rank 2 reduced, rank 3 3x3 per axis) x entry points x modes; "
             "distinct_nontrivial = distinct (descriptor kind, position class, end class, mode, data/raises) tuples.",
        bound=dict(quick="rank 1: all parameter sets at n in {5,2}; 5 rank-2 pairs; 2 rank-3 triples", thorough="rank 1: n in {5,1,2,3,4}; all 16 pairs and 64 triples with rotating parameters"),
        assumptions=["doubles compared exactly", "axis coordinates are those the library reports"],
    ),
)

PROPS["C06"] = dict(
    level="exploration",
    budget_s=dict(quick=300, thorough=1800),
    parts=[dict(name="multitags", bin="C06", flavour="plain")],
    manifest=dict(
        engine="E2", design_ref="5 / C06",
        technique="exhaustive input grid: array configurations x positions/extents tables (N in {1,2,3,8}; 1-D, Nx1, NxD, Nx(D-1), Nx(D+1)) x every index and index list x modes x link types, against the reference region of row i and against the list of single retrievals",
        text="Rows are drawn from the C05 candidates into positions/extents tables; every index 0..N+1 through util::taggedData, MultiTag::taggedData, getOffsetAndCount and tagged / "
             "untagged / indexed featureData (indexed features with N and N-1 slices), and the index lists [], [i], [i,j], [j,i], [i,i], [2,0,1], all, [i,N] are compared with the "
             "reference region of each row, in the requested order; indices beyond the positions must raise. Deprecated retrieveData spellings (single index and list) rotate with the others; every second multi-tag reads positions and extents through a calibration polynomial; a row of the positions table is corrected in place between two retrievals of the same index.",
        note=_GRID_NOTE + " The empty index list is read as the library's spelling of 'all positions'."),
    evidence=dict(
        keys=dict(evaluations=("sum", [("count", "retrievals"), ("count", "getOffsetAndCount_calls"), ("count", "list_retrievals")]), distinct_nontrivial=("distinct", "outcomes")),
        rule="case = one array configuration; tables of N rows from the candidate rows in a fixed permuted order; per table every index and index list; "
             "distinct_nontrivial = distinct (descriptor kind, position class, end class, mode, data/raises) tuples.",
        bound=dict(quick="rank 1 at n in {5,2}; 5 rank-2 pairs; 2 rank-3 triples", thorough="all pairs; rank-3 with one rotation; N=8 lists alternate between the modes"),
        assumptions=["doubles compared exactly", "axis coordinates are those the library reports", "every HDF5 group of the scratch files holds at most 8 links (HDF5 1.10.8 H5Oget_info failure above that, see notes)"],
    ),
)
