#!/bin/bash
# seed_detect.sh <round> <prop> <k> [check ...] : run the property's quick check (and further checks) against one seeded change
R=$1; P=$2; K=$3; shift 3
ROOT=$(cd "$(dirname "$0")/.." && pwd); D=/tmp/seed$R/$P/seed_out/$K
for C in $P "$@"; do
  MUT_LINES=40 "$ROOT/scripts/try_mutant.sh" "$D/patch.diff" "$C" quick > "$D/detect-$C.log" 2>&1
  echo "DETECT $P/$K by $C: $(grep -c '^VIOLATION' "$D/detect-$C.log") violations, $(grep -m1 'tier=quick' "$D/detect-$C.log" | grep -o 'exhaustive=[A-Za-z]*') $(tail -1 "$D/detect-$C.log") :: $(grep -m1 signature "$D/detect-$C.log" | cut -c1-200)" >> /tmp/seed$R/detect$R.log
done
