#!/usr/bin/env python3
"""mkmut.py <id> : print a git-style patch for mutant <id> of notes/mutant-patterns.txt against /repo's HEAD files"""
import sys, os, ast, difflib, subprocess
root = os.path.dirname(os.path.dirname(os.path.abspath(__file__)))
pats = []
for line in open(os.path.join(root, 'notes/mutant-patterns.txt')):
    line = line.strip()
    if line.startswith('('):
        try:
            pats.append(ast.literal_eval(line.rstrip(',')))
        except Exception:
            pass
want = sys.argv[1]
for p in pats:
    if p[0] == want:
        mid, fn, old, new = p[:4]
        src = subprocess.run(['git', '-C', '/repo', 'show', 'HEAD:' + fn], stdout=subprocess.PIPE, text=True, check=True).stdout
        if old not in src:
            sys.exit('pattern not found in ' + fn)
        dst = src.replace(old, new, 1)
        sys.stdout.writelines(difflib.unified_diff(src.splitlines(True), dst.splitlines(True), 'a/' + fn, 'b/' + fn))
        sys.exit(0)
sys.exit('unknown mutant ' + want)
