#!/usr/bin/env python3
"""Reads `gcov -f` output of all objects; prints library functions (src/, backend/hdf5, include/nix) executed by no object."""
import sys, re, subprocess, collections
best = collections.defaultdict(float); where = {}
fn = None
for line in open(sys.argv[1], errors='replace'):
    m = re.match(r"Function '(.*)'", line)
    if m: fn = m.group(1); continue
    m = re.match(r"Lines executed:([\d.]+)% of (\d+)", line)
    if m and fn:
        best[fn] = max(best[fn], float(m.group(1))); fn = None
    elif line.startswith('File '): fn = None
names = list(best)
dem = subprocess.run(['c++filt'], input='\n'.join(names), stdout=subprocess.PIPE, text=True).stdout.split('\n')
rows = sorted((d, best[n]) for n, d in zip(names, dem) if d.startswith('nix::') and 'lambda' not in d)
un = [d for d, b in rows if b == 0.0]
print("# library functions (nix::*) with 0%% of their lines executed by any quick harness: %d of %d" % (len(un), len(rows)))
for d in un: print(d)
