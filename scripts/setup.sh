#!/bin/bash
# setup_cmd: build both library flavours and every harness once (offline, from files on disk only)
set -euo pipefail
ROOT=$(cd "$(dirname "$0")/.." && pwd)
cd "$ROOT"
PL=$(python3 -c "
import sys; sys.path.insert(0,'scripts')
from propcfg import PROPS
for fl in ('plain','asan'):
    hs=sorted({b for c in PROPS.values() for p in c['parts'] if p.get('flavour','plain')==fl for b in [p['bin']]+c.get('extra_bins',[])})
    print(fl, ' '.join(hs))
")
echo "$PL" | while read fl hs; do
  [ -n "$hs" ] || continue
  echo "setup: building flavour $fl: $hs"
  scripts/build.sh $fl $hs
done
echo "setup: done"
