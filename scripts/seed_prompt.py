#!/usr/bin/env python3
"""seed_prompt.py <prop> <round> : print the brief handed to an independent seeding sub-agent.
The brief contains the property text and the one-line titles of changes seeded in earlier rounds (to force variety);
nothing about the checks in /verif."""
import sys, json, glob, os
prop, rnd = sys.argv[1], sys.argv[2]
P = [json.loads(l) for l in open('/verif/properties.jsonl')]
p = [x for x in P if x['id'] == prop][0]
seen = []
for d in sorted(glob.glob('/verif/seeded/%s-*' % prop)):
    n = os.path.join(d, 'notes.md')
    if os.path.exists(n):
        seen.append(open(n).readline().strip().lstrip('# ').strip())
root = '/tmp/seed%s/%s' % (rnd, prop)
print(f"""You are helping to evaluate a verification effort for the C++ library G-Node/nix (NIX neuroscience data model over HDF5).
Your job: write TWO independent, realistic, *subtle* changes to the library that each BREAK the semantic property below while the
library still compiles and the repository's existing test suite still passes completely. Think of the kind of regression a
well-meaning maintainer could introduce in a refactoring, an optimisation (cache, fast path, early exit), a "clean-up", a
generalisation, an error-handling change or a port to another API - not sabotage that ordinary use would expose at once.

PROPERTY {p['id']}: {p['title']}
Statement: {p['statement']}
Quantified over: {p['quantifier']['text']}
Why the existing tests cannot settle it: {p['why_tests_cant']}
Code the property is anchored in (a starting point, you may touch other code): {', '.join(p['anchors']['files'])}

REQUIREMENTS FOR EACH CHANGE
* It must need something specific to manifest: a multi-step sequence of operations, an unusual but legal input, a particular
  state reached earlier in the session or in an earlier session, a fault at a particular point, two cooperating sites that each
  look fine alone, a particular element type / rank / shape / length / name, a handle obtained at a particular moment, a second
  process, a particular environment (locale, umask, cwd, ...).  A first-call-fails change is useless.
* The two changes must be of DIFFERENT kinds and must touch different mechanisms.
* They must ALSO differ in kind from these changes that earlier rounds already produced for this property (do not redo them, do
  not produce near variants; look for other mechanisms, other entry points, other overloads, other code paths):
""" + ''.join('    - %s\n' % s for s in seen) + f"""* The whole existing suite must still pass with the change (all 31 ctest executables, 287 cases). One test executable
  (EntityWithMetadataHDF5) is not part of the baseline; ignore it if it fails without your change too.
* Each change comes with a demonstration: a small stand-alone C++11 program demo.cpp (only <nix.hpp> / public or internal nix
  headers + the standard library; creates its files in the current directory; no arguments) that exits 0 on the UNCHANGED
  library and exits non-zero (after printing what it saw and what it expected) on the changed library. The demo must test the
  PROPERTY as stated (a user-visible wrong answer, lost/corrupted/dangling state, crash, wrong acceptance/rejection...), not an
  implementation detail.  If the breach is undefined behaviour only a sanitizer shows, say so in notes.md ("needs SAN=1").

YOUR SANDBOX
* Your private git worktree of the library: {root}/src  (already created, at the current HEAD). Work ONLY there and in
  {root}. Do NOT read or write /verif or /repo, and do not look at other directories under /tmp. No network.
* Build:  cd {root}/src && cmake -G Ninja -S . -B _build -DCMAKE_BUILD_TYPE=RelWithDebInfo && cmake --build _build -j6
  Tests:  cd {root}/src/_build && ctest -j1 --timeout 900      (run serially: the fixtures share file names)
  Demo:   g++ -std=c++11 -I{root}/src/include -I{root}/src/_build/include -I/usr/include/hdf5/serial demo.cpp -L{root}/src/_build -lnixio -Wl,-rpath,{root}/src/_build -L/usr/lib/x86_64-linux-gnu/hdf5/serial -lhdf5 -o demo
  The machine is shared with other builds: use -j6 at most. Only the HDF5 backend is compiled (backend/fs is dead code).
* Develop one change at a time: apply it, build, run the FULL suite, run the demo (must fail), save `git diff` as patch.diff,
  then `git checkout -- .`, rebuild, run the demo again (must pass). Then the second change likewise. Patches must apply with
  `git apply` to the clean worktree HEAD, independently of each other.

DELIVERABLES (exactly these paths)
  {root}/seed_out/1/patch.diff  {root}/seed_out/1/demo.cpp  {root}/seed_out/1/notes.md
  {root}/seed_out/2/patch.diff  {root}/seed_out/2/demo.cpp  {root}/seed_out/2/notes.md
notes.md: first line `# {p['id']} seed {rnd}/<n> - <one-line summary>`; then sections: Change (what and the plausible motive),
Part of the property that breaks, What is needed to see it (the trigger), What you ran (suite result with/without, demo exit
codes with/without).  Leave the worktree clean (git checkout -- .) when you finish; do not remove it.
Final answer: for each change one paragraph (summary, trigger, suite result, demo exit codes).""")
