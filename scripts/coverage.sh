#!/bin/bash
# Coverage audit of the harnesses (not a check): builds libnixio and every harness with --coverage in a scratch
# directory, runs the quick tier of the given checks (default: all) and lists the library functions no harness reached.
# usage: scripts/coverage.sh [Cxx ...]     result: notes/coverage-unreached.txt
set -u
ROOT=$(cd "$(dirname "$0")/.." && pwd); cd "$ROOT"
export VERIF_FLAVOUR=cov VERIF_BUILD=/dev/shm/verif-cov/build VERIF_OUT=/dev/shm/verif-cov/out
rm -rf /dev/shm/verif-cov; mkdir -p $VERIF_BUILD $VERIF_OUT
# a frozen copy of the committed library source: edits of /repo during the audit would invalidate the counters
git -C /repo worktree add -q --detach /dev/shm/verif-cov/src HEAD
export VERIF_REPO=/dev/shm/verif-cov/src
PROPS=${*:-C01 C02 C03 C04 C05 C06 C07 C08 C09 C10 C11 C12 C13 C14 C15 C16 C17 C18 C19 C20}
for p in $PROPS; do ./check $p --tier quick 2>&1 | tail -1 | cut -c1-200; done
cd $VERIF_BUILD/cov
# function summaries of every instrumented object (library and harness objects: much of the library is header-inline)
find . -name '*.gcda' | while read g; do d=$(dirname $g); (cd $d && gcov -f -p -b $(basename $g) 2>/dev/null); done > /dev/shm/verif-cov/gcov-f.txt
python3 "$ROOT/scripts/coverage_report.py" /dev/shm/verif-cov/gcov-f.txt > "$ROOT/notes/coverage-unreached.txt"
tail -5 "$ROOT/notes/coverage-unreached.txt"
git -C /repo worktree remove --force /dev/shm/verif-cov/src; git -C /repo worktree prune
