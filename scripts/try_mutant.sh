#!/bin/bash
# usage: try_mutant.sh <patch.diff> <property> [tier]   (also: -R <commit> to revert a fix commit instead of a patch)
# Applies the patch to a scratch worktree of /repo HEAD (never to /repo itself), runs the property's check
# against it with its own build directory, prints the verdict, removes worktree and build output.
set -u
PATCH=$1; PROP=$2; TIER=${3:-quick}
ROOT=$(cd "$(dirname "$0")/.." && pwd)
W=$(mktemp -d /dev/shm/mut-XXXXXX)
trap 'git -C /repo worktree remove --force "$W/src" >/dev/null 2>&1; rm -rf "$W"' EXIT
git -C /repo worktree add -q --detach "$W/src" HEAD || exit 2
if [ "$PATCH" = "-R" ]; then
  shift; COMMIT=$1; PROP=$2; TIER=${3:-quick}
  git -C "$W/src" revert --no-commit "$COMMIT" >/dev/null 2>&1 || { echo "revert failed"; exit 2; }
else
  git -C "$W/src" apply "$PATCH" || { echo "patch does not apply"; exit 2; }
fi
VERIF_REPO="$W/src" VERIF_BUILD="$W/build" VERIF_OUT="$W/out" "$ROOT/check" "$PROP" --tier "$TIER" > "$W/log" 2>&1
RC=$?
grep -E "^(VIOLATION|KNOWN-FINDING|  signature|C[0-9]+ tier)" "$W/log" | cut -c1-300 | head -${MUT_LINES:-12}
[ $RC -ge 2 ] && tail -20 "$W/log"
echo "exit=$RC"
exit $RC
