#!/bin/bash
# confirm_seed.sh <seed dir with patch.diff + demo.cpp> : independent confirmation of a seeded change in a scratch worktree:
#   patched tree builds, unedited suite passes (ctest -j1), demo fails; unpatched tree: demo passes.
# prints one line:  CONFIRMED|REJECTED <dir> <details>
set -u
D=$(cd "$1" && pwd)
W=$(mktemp -d /tmp/confirm-XXXXXX)
trap 'git -C /repo worktree remove --force "$W/src" >/dev/null 2>&1; rm -rf "$W"' EXIT
git -C /repo worktree add -q --detach "$W/src" HEAD || { echo "REJECTED $D worktree"; exit 1; }
cd "$W/src"
git apply "$D/patch.diff" || { echo "REJECTED $D patch does not apply"; exit 1; }
cmake -G Ninja -S . -B _build -DCMAKE_BUILD_TYPE=RelWithDebInfo > "$W/cmake.log" 2>&1 && cmake --build _build > "$W/build.log" 2>&1 || { echo "REJECTED $D patched tree does not build"; exit 1; }
( cd _build && ctest -j1 --timeout 900 > "$W/ctest.log" 2>&1 ); T=$?
PASSED=$(grep -c "Passed" "$W/ctest.log")
[ $T -eq 0 ] || { echo "REJECTED $D suite fails with patch: $(grep -E 'Failed|tests passed' $W/ctest.log | head -3 | tr '\n' ' ')"; exit 1; }
DEMOLIB="$W/src/_build"; SANF=""
if [ "${SAN:-0}" = 1 ]; then
  # the demo observes undefined behaviour as a sanitizer report: link it against a sanitizer build of the same tree
  SANF="-fsanitize=address,undefined -g"
  cmake -G Ninja -S . -B _build_san -DCMAKE_BUILD_TYPE=San -DCMAKE_CXX_FLAGS_SAN="-O1 -g -fsanitize=address,undefined" -DCMAKE_SHARED_LINKER_FLAGS_SAN="-fsanitize=address,undefined" -DCMAKE_EXE_LINKER_FLAGS_SAN="-fsanitize=address,undefined" -DBUILD_TESTING=OFF > "$W/cmake_san.log" 2>&1 && cmake --build _build_san > "$W/build_san.log" 2>&1 || { echo "REJECTED $D sanitizer build failed"; exit 1; }
  DEMOLIB="$W/src/_build_san"
fi
g++ -std=c++11 $SANF -I"$W/src/include" -I"$W/src/_build/include" -I/usr/include/hdf5/serial "$D/demo.cpp" -L"$DEMOLIB" -lnixio -Wl,-rpath,"$DEMOLIB" -L/usr/lib/x86_64-linux-gnu/hdf5/serial -lhdf5 -o "$W/demo_p" > "$W/demo_build.log" 2>&1 || { echo "REJECTED $D demo does not compile (patched): $(tail -3 $W/demo_build.log | tr '\n' ' ')"; exit 1; }
( cd "$W" && timeout 600 ./demo_p > "$W/demo_p.log" 2>&1 ); RP=$?
git checkout -q -- . && cmake --build _build > "$W/build2.log" 2>&1 || { echo "REJECTED $D unpatched rebuild failed"; exit 1; }
if [ "${SAN:-0}" = 1 ]; then cmake --build _build_san > "$W/build_san2.log" 2>&1 || { echo "REJECTED $D unpatched sanitizer rebuild failed"; exit 1; }; fi
g++ -std=c++11 $SANF -I"$W/src/include" -I"$W/src/_build/include" -I/usr/include/hdf5/serial "$D/demo.cpp" -L"$DEMOLIB" -lnixio -Wl,-rpath,"$DEMOLIB" -L/usr/lib/x86_64-linux-gnu/hdf5/serial -lhdf5 -o "$W/demo_u" > "$W/demo_build2.log" 2>&1 || { echo "REJECTED $D demo does not compile (unpatched)"; exit 1; }
( cd "$W" && timeout 600 ./demo_u > "$W/demo_u.log" 2>&1 ); RU=$?
if [ $RP -ne 0 ] && [ $RU -eq 0 ]; then echo "CONFIRMED $D suite=${PASSED}/31 demo_patched_exit=$RP demo_unpatched_exit=$RU"; else echo "REJECTED $D demo_patched_exit=$RP demo_unpatched_exit=$RU"; exit 1; fi
