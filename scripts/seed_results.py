#!/usr/bin/env python3
"""write seeded/RESULTS.md from the meta.json files"""
import json, glob, os
root = os.path.dirname(os.path.dirname(os.path.abspath(__file__)))
rows = []
for d in sorted(glob.glob(os.path.join(root, 'seeded', 'C*-*'))):
    m = json.load(open(os.path.join(d, 'meta.json')))
    notes = open(os.path.join(d, 'notes.md')).read() if os.path.exists(os.path.join(d, 'notes.md')) else ''
    title = next((l.strip('# ').strip() for l in notes.split('\n') if l.strip()), '')[:110]
    rows.append((os.path.basename(d), m.get('seeding_round', 1), ', '.join(m['files_touched']), title, 'yes' if m['confirmation_result'].startswith('CONFIRMED') else 'NO',
                 ', '.join(m['detected_by']) if m['detected_by'] else '**none yet**'))
out = ['# Seeded changes and the checks that report them', '',
       'Each seed was written by a fresh sub-agent that saw only the property text (round 2: plus a list of mutant kinds to avoid), confirmed with',
       '`scripts/confirm_seed.sh` and run with `scripts/try_mutant.sh <patch> <check>` at the quick tier.  `detected by` lists the checks that print a VIOLATION for it.', '',
       '| seed | round | files | what (first line of notes.md) | confirmed | detected by |', '|------|-------|-------|------|-----------|-------------|']
for r in rows:
    out.append('| ' + ' | '.join(str(x) for x in r) + ' |')
open(os.path.join(root, 'seeded', 'RESULTS.md'), 'w').write('\n'.join(out) + '\n')
print(len(rows), 'seeds;', sum(1 for r in rows if r[5] == '**none yet**'), 'undetected')
