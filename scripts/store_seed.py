#!/usr/bin/env python3
"""store_seed.py <prop> <k> [detected_by ...] : copy a confirmed seeded change into seeded/<prop>-<k>/ and write meta.json"""
import sys, os, json, shutil, re
args = sys.argv[1:]
root, as_k = '/tmp/seed', None
while args and args[0].startswith('--'):
    if args[0] == '--round2': root = '/tmp/seed2'; args = args[1:]
    elif args[0] == '--round3': root = '/tmp/seed3'; args = args[1:]
    elif args[0] == '--round4': root = '/tmp/seed4'; args = args[1:]
    elif args[0] == '--round5': root = '/tmp/seed5'; args = args[1:]
    elif args[0] == '--as': as_k = args[1]; args = args[2:]
prop, k = args[0], args[1]
det = args[2:]
src = '%s/%s/seed_out/%s' % (root, prop, k)
dst = '/verif/seeded/%s-%s' % (prop, as_k or k)
os.makedirs(dst, exist_ok=True)
for f in ('patch.diff', 'demo.cpp', 'notes.md'):
    if os.path.exists(os.path.join(src, f)) and not (f == 'patch.diff' and os.path.exists(os.path.join(dst, f)) and '--keep-patch' in sys.argv):
        shutil.copy(os.path.join(src, f), dst)
import glob
conf = []
for lf in ['/tmp/seed/confirm.log'] + sorted(glob.glob('/tmp/seed2/round2*.log')) + sorted(glob.glob('/tmp/seed3/round3*.log')) + sorted(glob.glob('/tmp/seed4/round4*.log')) + sorted(glob.glob('/tmp/seed5/round5*.log')):
    if os.path.exists(lf):
        conf += [l.strip() for l in open(lf) if ('%s/%s/seed_out/%s ' % (root, prop, k)) in l and l.startswith(('CONFIRMED', 'REJECTED'))]
notes = open(os.path.join(dst, 'notes.md')).read() if os.path.exists(os.path.join(dst, 'notes.md')) else ''
files = sorted(set(re.findall(r'^\+\+\+ b/(\S+)', open(os.path.join(dst, 'patch.diff')).read(), re.M)))
meta = dict(
    property=prop, seed=int(as_k or k), seeding_round=5 if root.endswith('5') else 4 if root.endswith('4') else 3 if root.endswith('3') else 2 if root.endswith('2') else 1, files_touched=files,
    origin="written by an independent sub-agent that was given only the text of the property and a scratch worktree (nothing from /verif)",
    needs_to_manifest="see notes.md (trigger section)",
    confirmed_by="scripts/confirm_seed.sh in a scratch worktree of /repo HEAD: patched tree builds, unedited suite passes (ctest -j1 31/31), demo exits non-zero with the patch and 0 without",
    confirmation_result=conf[-1] if conf else "not confirmed by the script (see DESIGN.md)",
    checks_run="scripts/try_mutant.sh <patch> <property> (quick tier) in a scratch worktree with its own build directory",
    detected_by=det,
)
json.dump(meta, open(os.path.join(dst, 'meta.json'), 'w'), indent=1)
print(dst, conf[-1][:9] if conf else 'UNCONFIRMED', det)
