#!/usr/bin/env python3
"""store_seed.py <prop> <k> [detected_by ...] : copy a confirmed seeded change into seeded/<prop>-<k>/ and write meta.json"""
import sys, os, json, shutil, re
prop, k = sys.argv[1], sys.argv[2]
det = sys.argv[3:]
src = '/tmp/seed/%s/seed_out/%s' % (prop, k)
dst = '/verif/seeded/%s-%s' % (prop, k)
os.makedirs(dst, exist_ok=True)
for f in ('patch.diff', 'demo.cpp', 'notes.md'):
    if os.path.exists(os.path.join(src, f)):
        shutil.copy(os.path.join(src, f), dst)
conf = [l.strip() for l in open('/tmp/seed/confirm.log') if ('/%s/seed_out/%s ' % (prop, k)) in l]
notes = open(os.path.join(dst, 'notes.md')).read() if os.path.exists(os.path.join(dst, 'notes.md')) else ''
files = sorted(set(re.findall(r'^\+\+\+ b/(\S+)', open(os.path.join(dst, 'patch.diff')).read(), re.M)))
meta = dict(
    property=prop, seed=int(k), files_touched=files,
    origin="written by an independent sub-agent that was given only the text of the property and a scratch worktree (nothing from /verif)",
    needs_to_manifest="see notes.md (trigger section)",
    confirmed_by="scripts/confirm_seed.sh in a scratch worktree of /repo HEAD: patched tree builds, unedited suite passes (ctest -j1 31/31), demo exits non-zero with the patch and 0 without",
    confirmation_result=conf[-1] if conf else "not confirmed by the script (see DESIGN.md)",
    checks_run="scripts/try_mutant.sh <patch> <property> (quick tier) in a scratch worktree with its own build directory",
    detected_by=det,
)
json.dump(meta, open(os.path.join(dst, 'meta.json'), 'w'), indent=1)
print(dst, conf[-1][:9] if conf else 'UNCONFIRMED', det)
