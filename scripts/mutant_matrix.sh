#!/bin/bash
# mutant_matrix.sh : run the dry-run mutants of notes/mutant-patterns.txt (those that still apply) against the check of their property
cd "$(dirname "$0")/.."
for pair in M01a:C01 M03e:C03 M03f:C03 M04c:C04 M05b:C05 M06d:C06 M08d:C08 M08e:C08 M09:C09 M10b:C10 M11b:C11 M13:C13 M14d:C14 M15:C15 M16c:C16 M17d:C17 M18:C18 M19a:C19 M19b:C19 M20b:C20 M20c:C20; do
  m=${pair%:*}; p=${pair#*:}
  [ -n "$(python3 -c "import sys;sys.path.insert(0,'scripts');from propcfg import PROPS;print('y' if '$p' in PROPS else '')")" ] || { echo "SKIPPED  $m ($p not registered)"; continue; }
  scripts/mkmut.py $m > /tmp/mm_$m.diff 2>/tmp/mm_$m.err || { echo "N/A      $m ($(cat /tmp/mm_$m.err))"; continue; }
  out=$(MUT_LINES=2 scripts/try_mutant.sh /tmp/mm_$m.diff $p 2>&1)
  if echo "$out" | grep -q "^VIOLATION"; then echo "DETECTED $m by $p :: $(echo "$out" | grep signature | head -1 | cut -c1-170)"; else echo "MISSED   $m by $p :: $(echo "$out" | tail -2 | tr '\n' ' ' | cut -c1-200)"; fi
done
