# harness build rules: one executable per props/<name>.cpp, linked with engine/*.cpp
# dependency files (-MMD) make every harness follow edits of /repo headers.
CXX      = g++
INC      = -I$(REPO)/include -I$(REPO)/backend -I$(B)/lib/include -I/usr/include/hdf5/serial -I$(ROOT)/engine
CXXFLAGS = -std=c++11 $(CXXF) -DBOOST_ENABLE_ASSERT_HANDLER -Wall -Wno-deprecated-declarations -Wno-unused-local-typedefs $(INC) -MMD -MP
ENGINE_SRC = $(wildcard $(ROOT)/engine/*.cpp)
ENGINE_OBJ = $(patsubst $(ROOT)/engine/%.cpp,$(B)/obj/engine_%.o,$(ENGINE_SRC))
LIBS     = -L$(B)/lib -lnixio -Wl,-rpath,$(B)/lib -L/usr/lib/x86_64-linux-gnu/hdf5/serial -lhdf5 -lboost_regex -lboost_filesystem -lboost_system -ldl -lpthread

$(B)/obj/engine_%.o: $(ROOT)/engine/%.cpp
	$(CXX) $(CXXFLAGS) -c $< -o $@

$(B)/obj/%.o: $(ROOT)/props/%.cpp
	$(CXX) $(CXXFLAGS) -c $< -o $@

$(B)/bin/%: $(B)/obj/%.o $(ENGINE_OBJ) $(B)/lib/libnixio.so
	$(CXX) $(LDF) -o $@ $< $(ENGINE_OBJ) $(LIBS)

.SECONDARY:
-include $(wildcard $(B)/obj/*.d)
