#!/bin/bash
# thorough_pass.sh [Cxx ...] : runs the thorough tier of the given checks one after the other (used under `vp run` to make sure every
# registered thorough command runs to completion on the unchanged tree); prints one summary line per check
cd "$(dirname "$0")/.."
[ -d build/plain/lib ] || scripts/setup.sh > /dev/null 2>&1
for p in "$@"; do
  echo "=== $p $(date +%T)"
  ./check $p --tier thorough 2>&1 | grep -E "^(VIOLATION|KNOWN-FINDING|  signature|  what|C[0-9]+ tier)" | cut -c1-300
  echo "exit=${PIPESTATUS[0]} $(date +%T)"
done
