#!/bin/bash
# baseline_off_cmd: the repository's own suite with every verification guard OFF (there are no source hooks).
# Built in a directory of its own; run serially because the fixtures of different test executables share
# file names (test_block.h5 ...) and HDF5 takes an exclusive lock on files opened for writing.
set -euo pipefail
REPO=${VERIF_REPO:-/repo}
B=${VERIF_BASELINE_BUILD:-/verif/build/baseline}
mkdir -p "$B"
cmake -G Ninja -S "$REPO" -B "$B" -DCMAKE_BUILD_TYPE=RelWithDebInfo > "$B/cmake.log" 2>&1 || { cat "$B/cmake.log"; exit 2; }
cmake --build "$B" > "$B/build.log" 2>&1 || { tail -40 "$B/build.log"; exit 2; }
ctest --test-dir "$B" -j1 --timeout 900 --output-junit "$B/junit.xml"
