#!/bin/bash
# seed_matrix.sh [seed dir ...] : run each stored seed against the check of its own property (quick tier) and print DETECTED/MISSED
cd "$(dirname "$0")/.."
for d in ${@:-seeded/*/}; do
  d=${d%/}; id=$(basename $d); prop=${id%-*}
  [ -f $d/patch.diff ] || continue
  out=$(MUT_LINES=2 scripts/try_mutant.sh $(pwd)/$d/patch.diff $prop 2>&1)
  if echo "$out" | grep -q "^VIOLATION"; then echo "DETECTED $id by $prop :: $(echo "$out" | grep signature | head -1 | cut -c1-170)"; else echo "MISSED   $id by $prop :: $(echo "$out" | tail -2 | tr '\n' ' ' | cut -c1-200)"; fi
done
