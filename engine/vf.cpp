#include "vf.hpp"

#include <cstdio>
#include <cstdlib>
#include <cstring>
#include <csignal>
#include <ctime>
#include <cmath>
#include <typeinfo>
#include <exception>
#include <stdexcept>
#include <unistd.h>
#include <fcntl.h>
#include <sys/stat.h>
#include <sys/syscall.h>
#include <sys/time.h>
#include <dirent.h>
#include <cxxabi.h>

#include <hdf5.h>

namespace vf {

Opts opt;

static long g_clock = 0;
static long g_case = -1;
static std::string g_desc;
static double g_t0 = 0;
static int g_progress_fd = -1;
static FILE *g_out = nullptr;
static bool g_exhaustive = true;
static bool g_deadline_hit = false;
static long g_cases_run = 0;
static std::string g_scratch;

struct Viol { long idx; std::string desc, what, detail; long n; };
static std::map<std::string, Viol> g_viol;
static std::map<std::string, long> g_counts;
static std::map<std::string, std::set<uint64_t>> g_distinct;
static std::vector<std::string> g_samples;
static std::map<std::string, std::string> g_notes;

static double mono() {
    struct timespec ts;
    syscall(SYS_clock_gettime, CLOCK_MONOTONIC, &ts);
    return ts.tv_sec + ts.tv_nsec * 1e-9;
}

double wall() { return mono() - g_t0; }
void set_clock(long t) { g_clock = t; }
long get_clock() { return g_clock; }

uint64_t fnv(const void *p, size_t n, uint64_t h) {
    const unsigned char *c = static_cast<const unsigned char *>(p);
    for (size_t i = 0; i < n; i++) { h ^= c[i]; h *= 1099511628211ULL; }
    return h;
}
uint64_t fnv(const std::string &s) { return fnv(s.data(), s.size()); }

std::string jstr(const std::string &s) {
    std::string o = "\"";
    char buf[8];
    for (unsigned char c : s) {
        switch (c) {
        case '"': o += "\\\""; break;
        case '\\': o += "\\\\"; break;
        case '\n': o += "\\n"; break;
        case '\t': o += "\\t"; break;
        case '\r': o += "\\r"; break;
        default:
            if (c < 0x20 || c >= 0x7f) { snprintf(buf, sizeof buf, "\\u%04x", c); o += buf; }
            else o += static_cast<char>(c);
        }
    }
    return o + "\"";
}

std::string hexd(double d) {
    char buf[64];
    if (d != d) return "nan";
    snprintf(buf, sizeof buf, "%.17g", d);
    return buf;
}

std::string jvecd(const std::vector<double> &v) {
    std::string o = "[";
    for (size_t i = 0; i < v.size(); i++) { if (i) o += ","; o += hexd(v[i]); }
    return o + "]";
}
std::string jvecs(const std::vector<std::string> &v) {
    std::string o = "[";
    for (size_t i = 0; i < v.size(); i++) { if (i) o += ","; o += jstr(v[i]); }
    return o + "]";
}

static void rm_rf(const std::string &dir) {
    DIR *d = opendir(dir.c_str());
    if (!d) return;
    while (struct dirent *e = readdir(d)) {
        std::string n = e->d_name;
        if (n == "." || n == "..") continue;
        std::string p = dir + "/" + n;
        struct stat st;
        if (lstat(p.c_str(), &st) == 0 && S_ISDIR(st.st_mode)) rm_rf(p); else unlink(p.c_str());
    }
    closedir(d);
    rmdir(dir.c_str());
}

static pid_t g_owner = 0;
static void cleanup_scratch() {
    if (!g_scratch.empty() && getpid() == g_owner) rm_rf(g_scratch);
}

std::string scratch() {
    if (g_scratch.empty()) {
        const char *base = access("/dev/shm", W_OK) == 0 ? "/dev/shm" : "/verif/build";
        char buf[256];
        snprintf(buf, sizeof buf, "%s/vf-%s-%d", base, opt.prop.c_str(), (int)getpid());
        g_scratch = buf;
        mkdir(g_scratch.c_str(), 0700);
        g_owner = getpid();
        atexit(cleanup_scratch);
    }
    return g_scratch;
}
std::string scratch_file(const std::string &name) { return scratch() + "/" + name; }

static void write_progress() {
    if (g_progress_fd < 0) return;
    char buf[512];
    memset(buf, ' ', sizeof buf);
    int n = snprintf(buf, sizeof buf, "%ld %s", g_case, g_desc.c_str());
    if (n < (int)sizeof buf) buf[n] = ' ';
    buf[sizeof buf - 1] = '\n';
    if (pwrite(g_progress_fd, buf, sizeof buf, 0) < 0) {}
}

static void emit_viol_line(const std::string &sig, const Viol &v) {
    fprintf(g_out, "{\"t\":\"viol\",\"case\":%ld,\"desc\":%s,\"sig\":%s,\"what\":%s,\"detail\":%s}\n", v.idx,
            jstr(v.desc).c_str(), jstr(sig).c_str(), jstr(v.what).c_str(), jstr(v.detail).c_str());
    fflush(g_out);
}

static volatile sig_atomic_t g_in_handler = 0;
static void write_summary(bool crashed);

static void on_fatal(int sig) {
    if (g_in_handler) _exit(128 + sig);
    g_in_handler = 1;
    alarm(5);
    if (g_out) {
        fprintf(g_out, "{\"t\":\"crash\",\"case\":%ld,\"desc\":%s,\"signal\":%d}\n", g_case, jstr(g_desc).c_str(), sig);
        fflush(g_out);
        write_summary(true);
    }
    cleanup_scratch();
    _exit(128 + sig);
}

void init(int argc, char **argv, const char *prop) {
    g_t0 = mono();
    opt.prop = prop;
    for (int i = 1; i < argc; i++) {
        std::string a = argv[i];
        auto val = [&](const char *k) -> const char * {
            size_t n = strlen(k);
            if (a.compare(0, n, k) == 0 && a.size() > n && a[n] == '=') return a.c_str() + n + 1;
            return nullptr;
        };
        const char *v;
        if ((v = val("--tier"))) opt.tier = v;
        else if ((v = val("--shard"))) { sscanf(v, "%d/%d", &opt.shard, &opt.nshards); }
        else if ((v = val("--only"))) { opt.only = atol(v); opt.verbose = true; }
        else if ((v = val("--resume-after"))) opt.resume_after = atol(v);
        else if ((v = val("--deadline"))) opt.deadline_s = atof(v);
        else if ((v = val("--out"))) opt.out = v;
        else if ((v = val("--progress"))) opt.progress = v;
        else if (a == "--verbose") opt.verbose = true;
        else if (a.compare(0, 2, "--") == 0 && a.find('=') != std::string::npos) {
            size_t e = a.find('=');
            opt.extra[a.substr(2, e - 2)] = a.substr(e + 1);
        } else { fprintf(stderr, "vf: unknown argument %s\n", a.c_str()); exit(2); }
    }
    g_out = opt.out.empty() ? stdout : fopen(opt.out.c_str(), "w");
    if (!g_out) { perror("vf: out"); exit(2); }
    if (!opt.progress.empty()) g_progress_fd = open(opt.progress.c_str(), O_CREAT | O_WRONLY, 0600);
    H5Eset_auto2(H5E_DEFAULT, nullptr, nullptr);
    signal(SIGABRT, on_fatal);
#if !defined(__SANITIZE_ADDRESS__)
    signal(SIGSEGV, on_fatal);
    signal(SIGBUS, on_fatal);
    signal(SIGFPE, on_fatal);
    signal(SIGILL, on_fatal);
#endif
}

bool take_case(long idx) {
    if (opt.only >= 0) { if (idx != opt.only) return false; }
    else {
        if (idx <= opt.resume_after) return false;
        if (opt.nshards > 1 && (idx % opt.nshards) != opt.shard) return false;
        if (deadline_hit()) return false;
    }
    g_case = idx;
    g_desc.clear();
    g_cases_run++;
    write_progress();
    return true;
}

void case_desc(const std::string &d) { g_desc = d; write_progress(); }
long current_case() { return g_case; }

bool deadline_hit() {
    if (g_deadline_hit) return true;
    if (wall() > opt.deadline_s) { g_deadline_hit = true; g_exhaustive = false; }
    return g_deadline_hit;
}

void violation(const std::string &sig, const std::string &what, const std::string &detail) {
    auto it = g_viol.find(sig);
    if (it == g_viol.end()) {
        Viol v{g_case, g_desc, what, detail, 1};
        g_viol[sig] = v;
        emit_viol_line(sig, v);
    } else it->second.n++;
    if (opt.verbose) fprintf(stderr, "VIOL case=%ld sig=%s\n  what: %s\n  desc: %s\n%s\n", g_case, sig.c_str(), what.c_str(), g_desc.c_str(), detail.c_str());
}

void count(const std::string &name, long n) { g_counts[name] += n; }
void distinct(const std::string &b, uint64_t h) { g_distinct[b].insert(h); }
void distinct(const std::string &b, const std::string &s) { g_distinct[b].insert(fnv(s)); }
size_t distinct_size(const std::string &b) { return g_distinct[b].size(); }
void sample(const std::string &j, size_t keep) { if (g_samples.size() < keep) g_samples.push_back(j); }
void note(const std::string &k, const std::string &j) { g_notes[k] = j; }
void set_exhaustive(bool e) { if (!e) g_exhaustive = false; }

static void write_summary(bool crashed) {
    std::string s = "{\"t\":\"summary\",\"crashed\":";
    s += crashed ? "true" : "false";
    s += ",\"shard\":" + std::to_string(opt.shard) + ",\"cases_run\":" + std::to_string(g_cases_run);
    s += ",\"last_case\":" + std::to_string(g_case);
    s += ",\"exhaustive\":"; s += (g_exhaustive && !crashed) ? "true" : "false";
    s += ",\"deadline_hit\":"; s += g_deadline_hit ? "true" : "false";
    char buf[64]; snprintf(buf, sizeof buf, "%.3f", wall());
    s += ",\"wall\":"; s += buf;
    s += ",\"counts\":{";
    bool first = true;
    for (auto &kv : g_counts) { if (!first) s += ","; first = false; s += jstr(kv.first) + ":" + std::to_string(kv.second); }
    s += "},\"viol_counts\":{";
    first = true;
    for (auto &kv : g_viol) { if (!first) s += ","; first = false; s += jstr(kv.first) + ":" + std::to_string(kv.second.n); }
    s += "},\"distinct\":{";
    first = true;
    for (auto &kv : g_distinct) {
        if (!first) s += ","; first = false;
        s += jstr(kv.first) + ":";
        if (!opt.out.empty()) {
            // sidecar file with the raw hashes so that the dispatcher can take the union over shards
            std::string fn = opt.out + "." + kv.first + ".u64";
            FILE *f = fopen(fn.c_str(), "ab");
            if (f) { for (uint64_t h : kv.second) fwrite(&h, sizeof h, 1, f); fclose(f); }
            s += "{\"n\":" + std::to_string(kv.second.size()) + ",\"file\":" + jstr(fn) + "}";
        } else s += "{\"n\":" + std::to_string(kv.second.size()) + "}";
    }
    s += "},\"samples\":[";
    for (size_t i = 0; i < g_samples.size(); i++) { if (i) s += ","; s += g_samples[i]; }
    s += "],\"notes\":{";
    first = true;
    for (auto &kv : g_notes) { if (!first) s += ","; first = false; s += jstr(kv.first) + ":" + kv.second; }
    s += "}}\n";
    fputs(s.c_str(), g_out);
    fflush(g_out);
}

int finish() {
    write_summary(false);
    if (g_out != stdout) fclose(g_out);
    g_out = nullptr;
    cleanup_scratch();
    g_scratch.clear();
    return 0;
}

std::string guarded(const std::function<void()> &f, std::string *what) {
    try { f(); return ""; }
    catch (const std::exception &e) {
        if (what) *what = e.what();
        int st = 0;
        char *dn = abi::__cxa_demangle(typeid(e).name(), nullptr, nullptr, &st);
        std::string n = dn ? dn : typeid(e).name();
        free(dn);
        return "exc:" + n;
    } catch (...) { if (what) *what = "?"; return "exc:unknown"; }
}

} // namespace vf

// ---- the clock seen by libnixio (and by this process) ----------------------
extern "C" time_t time(time_t *t) {
    time_t v;
    if (vf::g_clock) v = vf::g_clock;
    else { struct timespec ts; syscall(SYS_clock_gettime, CLOCK_REALTIME, &ts); v = ts.tv_sec; }
    if (t) *t = v;
    return v;
}

// ---- make contract violations of boost containers loud ---------------------
namespace boost {
void assertion_failed(char const *expr, char const *function, char const *file, long line) {
    fprintf(stderr, "BOOST_ASSERT failed: %s in %s (%s:%ld)\n", expr, function, file, line);
    abort();
}
void assertion_failed_msg(char const *expr, char const *msg, char const *function, char const *file, long line) {
    fprintf(stderr, "BOOST_ASSERT failed: %s (%s) in %s (%s:%ld)\n", expr, msg, function, file, line);
    abort();
}
} // namespace boost

extern "C" const char *__asan_default_options() {
    return "detect_leaks=0:abort_on_error=1:handle_abort=0:detect_stack_use_after_return=0";
}
extern "C" const char *__ubsan_default_options() { return "print_stacktrace=1:halt_on_error=1:abort_on_error=1"; }
