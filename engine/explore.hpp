// explore — explicit-state exploration of operation histories on the real library.
//
// A state is (seed file, history of alphabet indices, fresh-session flag); it is materialised by copying the
// seed file and replaying the history (REOPEN = close + reopen ReadWrite).  States are de-duplicated by the
// symbolised canonical observation (ids replaced by #k) plus the fresh flag.  The search is breadth-first; all
// shards compute the first levels identically until the frontier is wide enough, then each shard continues
// with its slice of that frontier (own seen-set: over-fine de-duplication only costs time).
#ifndef VF_EXPLORE_HPP
#define VF_EXPLORE_HPP

#include "vf.hpp"
#include "obs.hpp"
#include "ops.hpp"
#include <deque>
#include <unordered_set>
#include <algorithm>

namespace ex {

static const int REOPEN = -1;

struct State {
    std::string seed;          // name of the seed
    std::vector<int> hist;     // alphabet indices / REOPEN
    bool fresh = true;         // true: nothing happened in the session since the file was opened
    uint64_t key = 0;
};

struct Seed { std::string name; std::string path; };

inline std::string hist_str(const std::vector<ops::Op> &alpha, const State &s, int extra = -2) {
    std::string o = s.seed + ":";
    for (size_t i = 0; i < s.hist.size(); i++) { o += (i ? " ; " : " "); o += s.hist[i] == REOPEN ? "REOPEN" : alpha[s.hist[i]].name; }
    if (extra != -2) { o += (s.hist.empty() ? " " : " ; "); o += "=> "; o += extra == REOPEN ? "REOPEN" : alpha[extra].name; }
    return o;
}

class Explorer {
public:
    std::vector<ops::Op> alpha;
    std::vector<Seed> seeds;
    obs::Options oopt;
    long clock0 = 1500000000;
    std::string work;             // work file path

    Explorer() { work = vf::scratch_file("work.h5"); }

    void add_seed(const std::string &name, const std::function<void(nix::File &)> &build) {
        Seed s{name, vf::scratch_file("seed_" + name + ".h5")};
        vf::set_clock(clock0 - 1000);
        nix::File f = nix::File::open(s.path, nix::FileMode::Overwrite);
        if (build) build(f);
        f.close();
        seeds.push_back(s);
    }
    const Seed &seed(const std::string &n) const { for (auto &s : seeds) if (s.name == n) return s; throw std::runtime_error("no seed " + n); }

    // run one step (op index or REOPEN) inside the session; returns "" ok, "notenabled", or "exc:<type>"
    std::string step(ops::Session &se, int op, size_t pos) {
        vf::set_clock(clock0 + (long)pos + 1);
        if (op == REOPEN) { se.reopen(); return ""; }
        try { alpha[op].run(se.file); return ""; }
        catch (const ops::NotEnabled &) { return "notenabled"; }
        catch (const std::exception &e) { return vf::guarded([&] { throw; }); }
        catch (...) { return "exc:unknown"; }
    }

    // copy the seed, open it, replay the history.  Throws std::runtime_error if the replay diverges.
    void materialize(const State &s, ops::Session &se) {
        se.close();
        ops::copy_file(seed(s.seed).path, work);
        se.path = work;
        vf::set_clock(clock0);
        se.open();
        for (size_t i = 0; i < s.hist.size(); i++) {
            std::string r = step(se, s.hist[i], i);
            if (!r.empty()) throw std::runtime_error("replay diverged at step " + std::to_string(i) + " (" + r + ")");
        }
    }

    std::string canon(const nix::File &f) { return obs::render(obs::observe(f, oopt)); }
    // handles of the observation of the parent state (taken before the step): kept alive over the step
    obs::Pool prepool;
    bool keep_pool = false;
    bool quiet = false;     // corpus generation inside another check: no counters, no case bookkeeping
    std::string canon_pre(const nix::File &f) { return obs::render(obs::observe(f, oopt, keep_pool ? &prepool : nullptr)); }
    // compare what the OLD handles show after the step with what fresh handles show; returns "" or "<key>: diff"
    std::string stale_handles(const obs::Node &fresh_tree) {
        if (!keep_pool) return "";
        std::map<std::string, std::string> fresh = obs::own_lines(fresh_tree), old = obs::own_lines(prepool, oopt);
        for (auto &kv : old) {
            auto it = fresh.find(kv.first);
            if (it == fresh.end()) continue;           // entity no longer exists: old handle is out of contract
            if (it->second != kv.second) return kv.first.substr(0, kv.first.find(':')) + "|old handle: " + kv.second + "fresh handle: " + it->second;
        }
        return "";
    }
    // the same for the handles RETURNED BY create* in the chained operations of this session (ops::created)
    std::string creation_handles(const obs::Node &fresh_tree) {
        std::map<std::string, std::string> fresh = obs::own_lines(fresh_tree), made = obs::own_lines(ops::created, oopt);
        for (auto &kv : made) {
            auto it = fresh.find(kv.first);
            if (it == fresh.end()) continue;           // deleted since: the handle is out of contract
            if (it->second != kv.second) return kv.first.substr(0, kv.first.find(':')) + "|creation handle: " + kv.second + "fresh handle: " + it->second;
        }
        return "";
    }
    // ... and for the handles that mutated their entity and are kept until after close() (ops::outlive)
    std::string mutating_handles(const obs::Node &fresh_tree) {
        std::map<std::string, std::string> fresh = obs::own_lines(fresh_tree), kept = obs::own_lines(ops::outlive, oopt);
        for (auto &kv : kept) {
            auto it = fresh.find(kv.first);
            if (it == fresh.end()) continue;
            if (it->second != kv.second) return kv.first.substr(0, kv.first.find(':')) + "|handle that made the changes: " + kv.second + "fresh handle: " + it->second;
        }
        return "";
    }
    uint64_t key_of(const std::string &canon_text, bool fresh) { return vf::fnv(obs::symbolize(canon_text) + (fresh ? "|F" : "|S")); }
    // State key.  The observation alone identifies a state only at a session boundary (nothing but the file carries
    // state then).  Inside a session the library object may carry hidden state (caches), which depends on WHICH
    // operations ran in this session: the key therefore also contains the multiset of operations executed since the
    // last (re)open.  Histories that differ only in the order of the same operations are merged, others are not.
    uint64_t key_of(const std::string &canon_text, const State &s) {
        std::vector<int> sess;
        for (size_t i = s.hist.size(); i-- > 0;) { if (s.hist[i] == REOPEN) break; sess.push_back(s.hist[i]); }
        std::sort(sess.begin(), sess.end());
        std::string k = obs::symbolize(canon_text) + "|";
        for (int o : sess) k += std::to_string(o) + ",";
        return vf::fnv(k);
    }

    // Breadth-first search to the given depth.
    //   visit(parent, op, session positioned at parent, pre_canon) -> canonical text after the step ("" = no new state:
    //   op not enabled or rejected).  The session may be left in any state (it is re-materialised for every transition).
    // include_reopen: REOPEN is part of the alphabet (only meaningful from non-fresh states).
    //   clean (out): set to true by visit when the step did not touch the session at all (guard failed), so that the
    //   materialised parent can be reused for the next operation.
    typedef std::function<std::string(const State &, int, ops::Session &, const std::string &, bool &)> Visit;

    std::vector<State> bfs(const std::vector<std::string> &from, int depth, bool include_reopen, const Visit &visit,
                           std::vector<State> *all_states = nullptr) {
        std::unordered_set<uint64_t> seen;
        std::vector<State> frontier;
        ops::Session se;
        for (auto &sn : from) {
            State s; s.seed = sn; s.fresh = true;
            materialize(s, se);
            s.key = key_of(canon(se.file), s);
            se.close();
            if (seen.insert(s.key).second) { frontier.push_back(s); if (!quiet) vf::distinct("states", s.key); if (all_states) all_states->push_back(s); }
        }
        bool split = vf::opt.nshards <= 1;   // has the frontier been partitioned among the shards yet?
        long caseno = 0;
        for (int level = 1; level <= depth && !frontier.empty(); level++) {
            if (!split && (long)frontier.size() >= 3L * vf::opt.nshards) {
                std::vector<State> mine;
                for (size_t i = 0; i < frontier.size(); i++) if ((int)(i % vf::opt.nshards) == vf::opt.shard) mine.push_back(frontier[i]);
                frontier.swap(mine);
                split = true;
            }
            bool counting = !quiet && (split || vf::opt.shard == 0);   // the shared prefix of the search is counted once
            std::vector<State> next;
            for (const State &p : frontier) {
                int nops = (int)alpha.size();
                bool dirty = true;
                std::string pre;
                for (int op = include_reopen ? REOPEN : 0; op < nops; op++) {
                    if (op == REOPEN && p.fresh) continue;
                    if (vf::deadline_hit()) { vf::set_exhaustive(false); goto done; }
                    long cid = caseno++ * std::max(1, vf::opt.nshards) + vf::opt.shard;
                    if (skip(cid)) continue;
                    if (!quiet) { vf::take_case(cid); vf::case_desc(hist_str(alpha, p, op)); }
                    if (dirty) {
                        try {
                            materialize(p, se); pre = canon_pre(se.file); dirty = false;
                            // canon-on-replay: the re-materialised parent must be the state that was stored
                            if (key_of(pre, p) != p.key) { vf::violation(vf::opt.prop + "|explorer|replay reaches a different state", hist_str(alpha, p)); break; }
                        } catch (const std::exception &e) { vf::violation(vf::opt.prop + "|explorer|replay diverged", std::string(e.what()) + " in " + hist_str(alpha, p)); break; }
                    }
                    bool clean = false;
                    std::string post = visit(p, op, se, pre, clean);
                    if (!clean) { dirty = true; prepool.clear(); se.close(); }
                    if (post.empty()) { if (counting) vf::count("steps_not_enabled_or_rejected"); continue; }
                    if (counting) vf::count("transitions");
                    State c; c.seed = p.seed; c.hist = p.hist; c.hist.push_back(op); c.fresh = (op == REOPEN);
                    c.key = key_of(post, c);
                    if (!quiet) { vf::distinct("states", c.key); vf::distinct("observable_states", key_of(post, true)); }
                    if (seen.insert(c.key).second) {
                        next.push_back(c);
                        if (all_states) all_states->push_back(c);
                        if (counting) vf::count("new_states_level_" + std::to_string(level));
                    }
                }
            }
            frontier.swap(next);
            if (!quiet) vf::note("level_completed", std::to_string(level));
        }
    done:
        prepool.clear();
        se.close();
        return frontier;
    }

    // crash recovery: cases listed in --skip are not executed again
    std::set<long> skipset;
    bool skip_loaded = false;
    bool skip(long cid) {
        if (!skip_loaded) {
            skip_loaded = true;
            auto it = vf::opt.extra.find("skip");
            if (it != vf::opt.extra.end()) { std::stringstream ss(it->second); std::string t; while (std::getline(ss, t, ',')) if (!t.empty()) skipset.insert(atol(t.c_str())); }
        }
        return skipset.count(cid) > 0;
    }

    // parse "--history=3,-1,7" style replay arguments
    static std::vector<int> parse_hist(const std::string &s) {
        std::vector<int> v; std::stringstream ss(s); std::string t;
        while (std::getline(ss, t, ',')) if (!t.empty()) v.push_back(atoi(t.c_str()));
        return v;
    }
    static std::string hist_arg(const std::vector<int> &h) { std::string o; for (size_t i = 0; i < h.size(); i++) { if (i) o += ","; o += std::to_string(h[i]); } return o; }
};

} // namespace ex

#endif
