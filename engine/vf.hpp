// vf — runtime shared by all property harnesses.
//
// A harness enumerates a finite, deterministically ordered list of *cases*
// (an input tuple, an operation sequence, a crash point ...).  The runtime
//   * shards the cases over processes (--shard i/n), resumes after a crash
//     (--resume-after k) and replays a single case (--only k),
//   * records the case that is currently running in a progress file so that
//     the dispatcher can attribute a crash (signal, sanitizer abort) to it,
//   * collects violations keyed by a *signature* (call site, input class,
//     assertion, deviation class) keeping the first example of each,
//   * collects counters, named sets of hashes (distinct states / outcomes,
//     merged across shards by the dispatcher) and a few written-out samples,
//   * owns the wall clock seen by libnixio (time() is defined here and wins
//     over libc's because libnixio calls it through the PLT).
#ifndef VF_HPP
#define VF_HPP

#include <cstdint>
#include <string>
#include <vector>
#include <map>
#include <set>
#include <sstream>
#include <functional>

namespace vf {

struct Opts {
    std::string prop;
    std::string tier = "quick";
    int shard = 0, nshards = 1;
    long only = -1;           // run exactly this case, verbosely
    long resume_after = -1;   // skip cases <= this index
    double deadline_s = 1e18; // wall-clock budget of this process
    std::string out;          // result file (JSON lines); stdout if empty
    std::string progress;     // progress file for crash attribution
    bool verbose = false;
    std::map<std::string, std::string> extra; // --key=value passed through
};
extern Opts opt;

void init(int argc, char **argv, const char *prop);

// true if this process has to run case idx (sharding / only / resume); also
// marks it as the running case.  desc is evaluated lazily on crash/violation.
bool take_case(long idx);
void case_desc(const std::string &desc); // human readable description of the running case
long current_case();

// the faked wall clock (seconds).  0 = real time.
void set_clock(long t);
long get_clock();
double wall(); // real monotonic seconds since init

bool deadline_hit();

void violation(const std::string &signature, const std::string &what, const std::string &detail = "");
void count(const std::string &name, long n = 1);
void distinct(const std::string &bucket, uint64_t h);
void distinct(const std::string &bucket, const std::string &s);
size_t distinct_size(const std::string &bucket);
void sample(const std::string &json_value, size_t keep = 4);
void note(const std::string &key, const std::string &json_value); // free-form coverage key
void set_exhaustive(bool e);
int finish(); // writes the summary, returns the process exit code (0)

// scratch directory of this process (on /dev/shm), removed by finish()/atexit
std::string scratch();
std::string scratch_file(const std::string &name);

// helpers
uint64_t fnv(const void *p, size_t n, uint64_t h = 1469598103934665603ULL);
uint64_t fnv(const std::string &s);
std::string jstr(const std::string &s); // JSON string literal
std::string hexd(double d);             // injective rendering of a double
template <typename T> std::string jvec(const std::vector<T> &v) {
    std::ostringstream o; o << "[";
    for (size_t i = 0; i < v.size(); i++) { if (i) o << ","; o << v[i]; }
    o << "]"; return o.str();
}
std::string jvecd(const std::vector<double> &v);
std::string jvecs(const std::vector<std::string> &v);

// run f; return "" if it returned normally, else "exc:<type>" (std::exception) / "exc:unknown"
std::string guarded(const std::function<void()> &f, std::string *what = nullptr);

} // namespace vf

#endif
