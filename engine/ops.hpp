// ops — the entity-graph alphabet (DESIGN appendix A): operation templates instantiated over small fixed
// name pools, executed on a real nix::File.  An operation addresses its entities by name from the file
// (no handles survive between operations unless an op keeps them itself), so any history can be replayed
// on a fresh copy of a seed file.  Guards are evaluated on the file: a missing precondition throws
// NotEnabled (the explorer skips the op); any other exception means the library rejected the call.
#ifndef VF_OPS_HPP
#define VF_OPS_HPP

#include <nix.hpp>
#include "obs.hpp"
#include <string>
#include <vector>
#include <functional>

namespace ops {

struct NotEnabled {};

struct Op {
    std::string name;
    std::function<void(nix::File &)> run;
    bool mutating;            // false: flush and friends
    int level;                // 0 = core alphabet, 1 = extended, 2 = full
    Op(const std::string &n, std::function<void(nix::File &)> f, bool m = true, int l = 0) : name(n), run(f), mutating(m), level(l) {}
};

// the alphabet up to the given level
std::vector<Op> entity_alphabet(int level);

// seeds: fixed scripts building rich files
void build_seed_r1(nix::File &f); // one block, every entity kind, one link of every kind
void build_seed_r2(nix::File &f); // two blocks, nesting depth 4, one target linked from many holders
void build_seed_r3(nix::File &f); // R1 plus a second block and at least two links in every link container

// session helper: a work file that can be closed and reopened
// handles RETURNED BY create* in the "chained" operations of the current session (keyed by entity id, like obs::Pool):
// what they show must be what a freshly fetched handle shows (Explorer::creation_handles)
extern obs::Pool created;
// handles that MUTATED their entity in the current session and are still alive while File::close() runs (they are dropped after it):
// what such a handle would do "on destruction" never reaches the file
extern obs::Pool outlive;

struct Session {
    std::string path;
    nix::File file;
    void open(nix::FileMode m = nix::FileMode::ReadWrite) { file = nix::File::open(path, m); }
    void close() { created.clear(); if (file && file.isOpen()) file.close(); file = nix::none; outlive.clear(); }
    void reopen(nix::FileMode m = nix::FileMode::ReadWrite) { close(); open(m); }
};

void copy_file(const std::string &from, const std::string &to);
std::string slurp(const std::string &path);

} // namespace ops

#endif
