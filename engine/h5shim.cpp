// HDF5 boundary shim (asan flavour only).
//
// libhdf5 is not sanitizer-instrumented: when nix hands it a buffer that is
// shorter than the rank / element count HDF5 expects, HDF5 reads or writes past
// it and nobody notices.  These forwarding wrappers are defined in the harness
// executable (so calls from libnixio.so resolve to them), are compiled with
// ASan, and touch exactly the bytes HDF5 is entitled to touch before forwarding
// to the real function.  A contract breach becomes an ordinary ASan report.
#if defined(__SANITIZE_ADDRESS__)
#include <hdf5.h>
#include <dlfcn.h>
#include <cstdio>
#include <cstdlib>
#include <sanitizer/asan_interface.h>

namespace {
volatile unsigned long long g_sink;

template <typename F> F real(const char *name) {
    void *p = dlsym(RTLD_NEXT, name);
    if (!p) { fprintf(stderr, "h5shim: cannot resolve %s\n", name); abort(); }
    return reinterpret_cast<F>(p);
}

// touch n bytes at p the way HDF5 would (read or write): an instrumented access
// to the first poisoned byte makes ASan report with the nix caller on the stack
void touch(const void *p, size_t n, bool write) {
    if (!p || n == 0) return;
    void *bad = __asan_region_is_poisoned(const_cast<void *>(p), n);
    if (!bad) return;
    volatile char *c = static_cast<volatile char *>(bad);
    if (write) *c = *c; else g_sink += *c;
}
void touch_dims(const hsize_t *a, int rank, bool write = false) {
    if (a && rank > 0) touch(a, sizeof(hsize_t) * rank, write);
}
} // namespace

extern "C" {

herr_t H5Sselect_hyperslab(hid_t space, H5S_seloper_t op, const hsize_t start[], const hsize_t stride[],
                           const hsize_t count[], const hsize_t block[]) {
    static auto f = real<herr_t (*)(hid_t, H5S_seloper_t, const hsize_t *, const hsize_t *, const hsize_t *, const hsize_t *)>("H5Sselect_hyperslab");
    int rank = H5Sget_simple_extent_ndims(space);
    touch_dims(start, rank); touch_dims(stride, rank); touch_dims(count, rank); touch_dims(block, rank);
    return f(space, op, start, stride, count, block);
}

hid_t H5Screate_simple(int rank, const hsize_t dims[], const hsize_t maxdims[]) {
    static auto f = real<hid_t (*)(int, const hsize_t *, const hsize_t *)>("H5Screate_simple");
    touch_dims(dims, rank); touch_dims(maxdims, rank);
    return f(rank, dims, maxdims);
}

herr_t H5Sset_extent_simple(hid_t space, int rank, const hsize_t dims[], const hsize_t maxdims[]) {
    static auto f = real<herr_t (*)(hid_t, int, const hsize_t *, const hsize_t *)>("H5Sset_extent_simple");
    touch_dims(dims, rank); touch_dims(maxdims, rank);
    return f(space, rank, dims, maxdims);
}

herr_t H5Dset_extent(hid_t dset, const hsize_t size[]) {
    static auto f = real<herr_t (*)(hid_t, const hsize_t *)>("H5Dset_extent");
    hid_t sp = H5Dget_space(dset);
    if (sp >= 0) { touch_dims(size, H5Sget_simple_extent_ndims(sp)); H5Sclose(sp); }
    return f(dset, size);
}

herr_t H5Pset_chunk(hid_t plist, int ndims, const hsize_t dim[]) {
    static auto f = real<herr_t (*)(hid_t, int, const hsize_t *)>("H5Pset_chunk");
    touch_dims(dim, ndims);
    return f(plist, ndims, dim);
}

static hssize_t xfer_points(hid_t dset, hid_t memspace, hid_t filespace) {
    if (memspace != H5S_ALL) return H5Sget_select_npoints(memspace);
    if (filespace != H5S_ALL) return H5Sget_select_npoints(filespace);
    hid_t sp = H5Dget_space(dset);
    hssize_t n = sp >= 0 ? H5Sget_simple_extent_npoints(sp) : -1;
    if (sp >= 0) H5Sclose(sp);
    return n;
}

herr_t H5Dread(hid_t dset, hid_t memtype, hid_t memspace, hid_t filespace, hid_t plist, void *buf) {
    static auto f = real<herr_t (*)(hid_t, hid_t, hid_t, hid_t, hid_t, void *)>("H5Dread");
    hssize_t n = xfer_points(dset, memspace, filespace);
    size_t sz = H5Tget_size(memtype);
    if (n > 0 && sz > 0) touch(buf, static_cast<size_t>(n) * sz, true);
    return f(dset, memtype, memspace, filespace, plist, buf);
}

herr_t H5Dwrite(hid_t dset, hid_t memtype, hid_t memspace, hid_t filespace, hid_t plist, const void *buf) {
    static auto f = real<herr_t (*)(hid_t, hid_t, hid_t, hid_t, hid_t, const void *)>("H5Dwrite");
    hssize_t n = xfer_points(dset, memspace, filespace);
    size_t sz = H5Tget_size(memtype);
    if (n > 0 && sz > 0) touch(buf, static_cast<size_t>(n) * sz, false);
    return f(dset, memtype, memspace, filespace, plist, buf);
}

herr_t H5Aread(hid_t attr, hid_t memtype, void *buf) {
    static auto f = real<herr_t (*)(hid_t, hid_t, void *)>("H5Aread");
    hid_t sp = H5Aget_space(attr);
    hssize_t n = sp >= 0 ? H5Sget_simple_extent_npoints(sp) : -1;
    if (sp >= 0) H5Sclose(sp);
    size_t sz = H5Tget_size(memtype);
    if (n > 0 && sz > 0) touch(buf, static_cast<size_t>(n) * sz, true);
    return f(attr, memtype, buf);
}

herr_t H5Awrite(hid_t attr, hid_t memtype, const void *buf) {
    static auto f = real<herr_t (*)(hid_t, hid_t, const void *)>("H5Awrite");
    hid_t sp = H5Aget_space(attr);
    hssize_t n = sp >= 0 ? H5Sget_simple_extent_npoints(sp) : -1;
    if (sp >= 0) H5Sclose(sp);
    size_t sz = H5Tget_size(memtype);
    if (n > 0 && sz > 0) touch(buf, static_cast<size_t>(n) * sz, false);
    return f(attr, memtype, buf);
}

} // extern "C"
#endif
