// obs — the observer: walks a NIX file through PUBLIC GETTERS ONLY and produces a structured tree plus
// an injective canonical text of everything observable (entities, attributes, links as target ids,
// dimension descriptors, stored data, frame cells, property values, lookup agreement).
// Every getter is guarded: an exception becomes the value "!exc:<type>" instead of ending the walk.
#ifndef VF_OBS_HPP
#define VF_OBS_HPP

#include <nix.hpp>
#include <string>
#include <vector>
#include <set>
#include <map>

namespace obs {

struct Node {
    std::string kind;   // File, Block, DataArray, Dim, DataFrame, Tag, MultiTag, Feature, Group, Source, Section, Property
    std::string id;     // entity id ("" for dimensions and the lookup-less)
    std::string name;
    std::vector<std::pair<std::string, std::string>> scal;                 // scalar attributes, rendered
    std::vector<std::pair<std::string, std::vector<std::string>>> links;   // id-valued attributes (targets)
    std::vector<std::pair<std::string, std::vector<Node>>> kids;           // ordered child containers

    std::string get(const std::string &k) const;
    void set(const std::string &k, const std::string &v);
    std::vector<std::string> *link(const std::string &k);
    std::vector<Node> *container(const std::string &k);
};

struct Options {
    bool data = true;        // include stored array data / frame cells / property values
    bool lookups = true;     // include the per-child lookup agreement line (byName/byId/has*)
    bool updated_at = false; // updated_at is not part of any statement unless asked for
    bool created_at = true;
};

// handles created by one observation, kept alive so that a later step can be observed again THROUGH THE OLD HANDLES
// (an entity read through a handle obtained earlier must look the same as through a fresh one: this is what
// exposes per-object caches that are not invalidated)
struct Pool {
    std::map<std::string, nix::Block> blocks;
    std::map<std::string, nix::DataArray> arrays;
    std::map<std::string, nix::DataFrame> frames;
    std::map<std::string, nix::Tag> tags;
    std::map<std::string, nix::MultiTag> mtags;
    std::map<std::string, nix::Group> groups;
    std::map<std::string, nix::Source> sources;
    std::map<std::string, nix::Section> sections;
    std::map<std::string, nix::Property> properties;
    std::map<std::string, nix::Feature> features;
    std::map<std::string, nix::Dimension> dims;   // key: <array id>/dim<index>/<kind>
    void clear() { *this = Pool(); }
};

Node observe(const nix::File &f, const Options &o = Options(), Pool *pool = nullptr);
// own line (attributes and links, no child containers) of every entity / dimension of a tree, keyed like the pool
std::map<std::string, std::string> own_lines(const Node &root);
// the same, read again through the pooled (old) handles
std::map<std::string, std::string> own_lines(const Pool &pool, const Options &o = Options());
std::string render(const Node &n, int indent = 0);

// replace every UUID by #k (k = order of first appearance): id-independent key of a state
std::string symbolize(const std::string &text);

// --- tree utilities used by the per-transition reference models ---
// visit every node (pre-order)
void walk(Node &n, const std::function<void(Node &)> &f);
void walk(const Node &n, const std::function<void(const Node &)> &f);
// collect the ids of a node and of everything below it
void collect_ids(const Node &n, std::set<std::string> &ids);
// find a node by id (nullptr if absent)
Node *find(Node &root, const std::string &id);
// remove the nodes with the given ids (with their subtrees) and every link pointing at a removed id
void remove_entities(Node &root, const std::set<std::string> &ids);

std::string variant_str(const nix::Variant &v);
std::string dtype_str(nix::DataType t);
// all elements of an array as text, read as the array's own element type
std::string array_data(const nix::DataArray &a);

// short unified-style diff of two canonical texts (for violation reports)
std::string diff(const std::string &a, const std::string &b, size_t max_lines = 40);

} // namespace obs

#endif
