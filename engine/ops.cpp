#include "ops.hpp"
#include <fstream>
#include <sstream>

using namespace nix;

namespace ops {

void copy_file(const std::string &a, const std::string &b) {
    std::ifstream in(a, std::ios::binary);
    std::ofstream out(b, std::ios::binary | std::ios::trunc);
    out << in.rdbuf();
}
std::string slurp(const std::string &a) {
    std::ifstream in(a, std::ios::binary);
    std::stringstream ss; ss << in.rdbuf(); return ss.str();
}

// ---- guarded accessors: throw NotEnabled when the addressed entity does not exist ----
static Block B(File &f, const std::string &n) { if (!f.hasBlock(n)) throw NotEnabled(); return f.getBlock(n); }
static DataArray A(File &f, const std::string &b, const std::string &n) { Block k = B(f, b); if (!k.hasDataArray(n)) throw NotEnabled(); return k.getDataArray(n); }
static DataFrame F(File &f, const std::string &b, const std::string &n) { Block k = B(f, b); if (!k.hasDataFrame(n)) throw NotEnabled(); return k.getDataFrame(n); }
static Tag T(File &f, const std::string &b, const std::string &n) { Block k = B(f, b); if (!k.hasTag(n)) throw NotEnabled(); return k.getTag(n); }
static MultiTag M(File &f, const std::string &b, const std::string &n) { Block k = B(f, b); if (!k.hasMultiTag(n)) throw NotEnabled(); return k.getMultiTag(n); }
static Group G(File &f, const std::string &b, const std::string &n) { Block k = B(f, b); if (!k.hasGroup(n)) throw NotEnabled(); return k.getGroup(n); }
// sources: path s1/s2/s3
static Source SRC(File &f, const std::string &b, const std::vector<std::string> &path) {
    Block k = B(f, b);
    if (path.empty() || !k.hasSource(path[0])) throw NotEnabled();
    Source s = k.getSource(path[0]);
    for (size_t i = 1; i < path.size(); i++) { if (!s.hasSource(path[i])) throw NotEnabled(); s = s.getSource(path[i]); }
    return s;
}
static Section SEC(File &f, const std::vector<std::string> &path) {
    if (path.empty() || !f.hasSection(path[0])) throw NotEnabled();
    Section s = f.getSection(path[0]);
    for (size_t i = 1; i < path.size(); i++) { if (!s.hasSection(path[i])) throw NotEnabled(); s = s.getSection(path[i]); }
    return s;
}
static Property P(File &f, const std::vector<std::string> &sec, const std::string &n) { Section s = SEC(f, sec); if (!s.hasProperty(n)) throw NotEnabled(); return s.getProperty(n); }
static Dimension DIM(File &f, const std::string &b, const std::string &a, size_t i) { DataArray d = A(f, b, a); if (d.dimensionCount() < i) throw NotEnabled(); return d.getDimension(i); }
static Feature FEAT(Tag &t, size_t i) { if (t.featureCount() <= i) throw NotEnabled(); return t.getFeature(i); }
static Feature FEAT(MultiTag &t, size_t i) { if (t.featureCount() <= i) throw NotEnabled(); return t.getFeature(i); }
static void need(bool c) { if (!c) throw NotEnabled(); }

obs::Pool created;
obs::Pool outlive;

typedef std::vector<std::string> VS;

std::vector<Op> entity_alphabet(int level) {
    std::vector<Op> v;
    auto add = [&](int lvl, const std::string &name, std::function<void(File &)> fn, bool mut = true) {
        if (lvl <= level) v.push_back(Op(name, fn, mut, lvl));
    };
    const std::string b1 = "b1", b2 = "b2";

    // ---------------- File ----------------
    add(0, "createBlock(b1)", [=](File &f) { need(!f.hasBlock("b1")); f.createBlock("b1", "t"); });
    add(1, "createBlock(b2)", [=](File &f) { need(!f.hasBlock("b2")); f.createBlock("b2", "u"); });
    add(0, "deleteBlock(b1,name)", [=](File &f) { B(f, b1); f.deleteBlock("b1"); });
    add(1, "deleteBlock(b1,id)", [=](File &f) { f.deleteBlock(B(f, b1).id()); });
    add(1, "deleteBlock(b1,handle)", [=](File &f) { f.deleteBlock(B(f, b1)); });
    add(2, "deleteBlock(b2,name)", [=](File &f) { B(f, b2); f.deleteBlock("b2"); });
    add(0, "createSection(x1)", [=](File &f) { need(!f.hasSection("x1")); f.createSection("x1", "t"); });
    add(1, "createSection(y1)", [=](File &f) { need(!f.hasSection("y1")); f.createSection("y1", "u"); });
    add(0, "deleteSection(x1,name)", [=](File &f) { SEC(f, {"x1"}); f.deleteSection("x1"); });
    add(1, "deleteSection(x1,id)", [=](File &f) { f.deleteSection(SEC(f, {"x1"}).id()); });
    add(1, "deleteSection(x1,handle)", [=](File &f) { f.deleteSection(SEC(f, {"x1"})); });
    add(2, "deleteSection(y1,name)", [=](File &f) { SEC(f, {"y1"}); f.deleteSection("y1"); });
    add(1, "flush", [=](File &f) { f.flush(); }, false);

    // ---------------- Block ----------------
    add(1, "b1.type(u)", [=](File &f) { B(f, b1).type("u"); });
    add(1, "b1.definition(d1)", [=](File &f) { B(f, b1).definition("d1"); });
    add(2, "b1.definition(none)", [=](File &f) { Block b = B(f, b1); need(bool(b.definition())); b.definition(none); });
    add(1, "b1.metadata(x1)", [=](File &f) { B(f, b1).metadata(SEC(f, {"x1"})); });
    add(2, "b1.metadata(id y1)", [=](File &f) { B(f, b1).metadata(SEC(f, {"y1"}).id()); });
    add(1, "b1.metadata(none)", [=](File &f) { Block b = B(f, b1); need(bool(b.metadata())); b.metadata(none); });

    add(0, "b1.createDataArray(a1,Double{3})", [=](File &f) { Block b = B(f, b1); need(!b.hasDataArray("a1")); DataArray a = b.createDataArray("a1", "t", DataType::Double, NDSize({3})); a.setData(std::vector<double>{1.5, 2.5, 4.0}); });
    add(0, "b1.createDataArray(a2,Int32{2,3})", [=](File &f) { Block b = B(f, b1); need(!b.hasDataArray("a2")); DataArray a = b.createDataArray("a2", "t", DataType::Int32, NDSize({2, 3})); std::vector<int32_t> d = {1, 2, 3, 4, 5, 6}; a.setData(DataType::Int32, d.data(), NDSize({2, 3}), NDSize({0, 0})); });
    add(1, "b1.createDataArray(a3,String{2})", [=](File &f) { Block b = B(f, b1); need(!b.hasDataArray("a3")); DataArray a = b.createDataArray("a3", "u", DataType::String, NDSize({2})); a.setData(std::vector<std::string>{"x", "\xc3\xa4"}); });
    add(2, "b1.createDataArray(a4,vector)", [=](File &f) { Block b = B(f, b1); need(!b.hasDataArray("a4")); b.createDataArray("a4", "t", std::vector<double>{0.0, 1.0, 2.0, 3.0}); });
    add(2, "b2.createDataArray(a1,Double{2})", [=](File &f) { Block b = B(f, b2); need(!b.hasDataArray("a1")); b.createDataArray("a1", "t", DataType::Double, NDSize({2})); });
    add(0, "b1.deleteDataArray(a1,name)", [=](File &f) { A(f, b1, "a1"); B(f, b1).deleteDataArray("a1"); });
    add(1, "b1.deleteDataArray(a1,id)", [=](File &f) { B(f, b1).deleteDataArray(A(f, b1, "a1").id()); });
    add(1, "b1.deleteDataArray(a2,handle)", [=](File &f) { B(f, b1).deleteDataArray(A(f, b1, "a2")); });
    add(2, "b1.deleteDataArray(a3,name)", [=](File &f) { A(f, b1, "a3"); B(f, b1).deleteDataArray("a3"); });

    add(1, "b1.createDataFrame(f1)", [=](File &f) { Block b = B(f, b1); need(!b.hasDataFrame("f1")); std::vector<Column> cols = {{"c0", "", DataType::Double}, {"c1", "mV", DataType::Int64}, {"c2", "", DataType::String}}; DataFrame df = b.createDataFrame("f1", "t", cols); df.rows(2); df.writeRow(0, {Variant(1.5), Variant(int64_t(-7)), Variant("r0")}); df.writeRow(1, {Variant(2.5), Variant(int64_t(8)), Variant("r1")}); });
    add(1, "b1.deleteDataFrame(f1,name)", [=](File &f) { F(f, b1, "f1"); B(f, b1).deleteDataFrame("f1"); });
    add(2, "b1.deleteDataFrame(f1,handle)", [=](File &f) { B(f, b1).deleteDataFrame(F(f, b1, "f1")); });

    add(0, "b1.createTag(t1,{1})", [=](File &f) { Block b = B(f, b1); need(!b.hasTag("t1")); b.createTag("t1", "t", {1.0}); });
    add(1, "b1.createTag(t2,{0,1})", [=](File &f) { Block b = B(f, b1); need(!b.hasTag("t2")); b.createTag("t2", "u", {0.0, 1.0}); });
    add(0, "b1.deleteTag(t1,name)", [=](File &f) { T(f, b1, "t1"); B(f, b1).deleteTag("t1"); });
    add(2, "b1.deleteTag(t1,id)", [=](File &f) { B(f, b1).deleteTag(T(f, b1, "t1").id()); });
    add(2, "b1.deleteTag(t2,handle)", [=](File &f) { B(f, b1).deleteTag(T(f, b1, "t2")); });

    add(1, "b1.createMultiTag(m1,a1)", [=](File &f) { Block b = B(f, b1); need(!b.hasMultiTag("m1")); b.createMultiTag("m1", "t", A(f, b1, "a1")); });
    add(1, "b1.deleteMultiTag(m1,name)", [=](File &f) { M(f, b1, "m1"); B(f, b1).deleteMultiTag("m1"); });
    add(2, "b1.deleteMultiTag(m1,handle)", [=](File &f) { B(f, b1).deleteMultiTag(M(f, b1, "m1")); });

    add(1, "b1.createGroup(g1)", [=](File &f) { Block b = B(f, b1); need(!b.hasGroup("g1")); b.createGroup("g1", "t"); });
    add(1, "b1.deleteGroup(g1,name)", [=](File &f) { G(f, b1, "g1"); B(f, b1).deleteGroup("g1"); });

    add(0, "b1.createSource(s1)", [=](File &f) { Block b = B(f, b1); need(!b.hasSource("s1")); b.createSource("s1", "t"); });
    add(2, "b1.createSource(s5)", [=](File &f) { Block b = B(f, b1); need(!b.hasSource("s5")); b.createSource("s5", "u"); });
    add(1, "s1.createSource(s2)", [=](File &f) { Source s = SRC(f, b1, {"s1"}); need(!s.hasSource("s2")); s.createSource("s2", "t"); });
    add(1, "s2.createSource(s3)", [=](File &f) { Source s = SRC(f, b1, {"s1", "s2"}); need(!s.hasSource("s3")); s.createSource("s3", "t"); });
    add(2, "s3.createSource(s4)", [=](File &f) { Source s = SRC(f, b1, {"s1", "s2", "s3"}); need(!s.hasSource("s4")); s.createSource("s4", "t"); });
    add(2, "s1.createSource(s2b)", [=](File &f) { Source s = SRC(f, b1, {"s1"}); need(!s.hasSource("s2b")); s.createSource("s2b", "u"); });
    add(0, "b1.deleteSource(s1,name)", [=](File &f) { SRC(f, b1, {"s1"}); B(f, b1).deleteSource("s1"); });
    add(1, "b1.deleteSource(s1,handle)", [=](File &f) { B(f, b1).deleteSource(SRC(f, b1, {"s1"})); });
    add(1, "s1.deleteSource(s2,name)", [=](File &f) { SRC(f, b1, {"s1", "s2"}); SRC(f, b1, {"s1"}).deleteSource("s2"); });
    add(2, "s1.deleteSource(s2,id)", [=](File &f) { SRC(f, b1, {"s1"}).deleteSource(SRC(f, b1, {"s1", "s2"}).id()); });
    add(2, "s2.deleteSource(s3,handle)", [=](File &f) { SRC(f, b1, {"s1", "s2"}).deleteSource(SRC(f, b1, {"s1", "s2", "s3"})); });
    add(2, "s1.type(u)", [=](File &f) { SRC(f, b1, {"s1"}).type("u"); });
    add(2, "s2.definition(d)", [=](File &f) { SRC(f, b1, {"s1", "s2"}).definition("d\xc3\xa4"); });
    add(1, "s1.metadata(x1)", [=](File &f) { SRC(f, b1, {"s1"}).metadata(SEC(f, {"x1"})); });
    add(2, "s2.metadata(x2)", [=](File &f) { SRC(f, b1, {"s1", "s2"}).metadata(SEC(f, {"x1", "x2"})); });

    // ---------------- DataArray ----------------
    add(1, "a1.label(L)", [=](File &f) { A(f, b1, "a1").label("L"); });
    add(2, "a1.label(none)", [=](File &f) { DataArray a = A(f, b1, "a1"); need(bool(a.label())); a.label(none); });
    add(1, "a1.unit(mV)", [=](File &f) { A(f, b1, "a1").unit("mV"); });
    add(2, "a1.unit(none)", [=](File &f) { DataArray a = A(f, b1, "a1"); need(bool(a.unit())); a.unit(none); });
    add(1, "a1.expansionOrigin(0.5)", [=](File &f) { A(f, b1, "a1").expansionOrigin(0.5); });
    add(2, "a1.expansionOrigin(none)", [=](File &f) { DataArray a = A(f, b1, "a1"); need(bool(a.expansionOrigin())); a.expansionOrigin(none); });
    add(1, "a1.polynom({1,2})", [=](File &f) { A(f, b1, "a1").polynomCoefficients({1.0, 2.0}); });
    add(2, "a1.polynom(none)", [=](File &f) { DataArray a = A(f, b1, "a1"); need(!a.polynomCoefficients().empty()); a.polynomCoefficients(none); });
    add(2, "a1.type(u)", [=](File &f) { A(f, b1, "a1").type("u"); });
    add(2, "a2.definition(d)", [=](File &f) { A(f, b1, "a2").definition("d"); });
    add(1, "a1.dataExtent(+1)", [=](File &f) { DataArray a = A(f, b1, "a1"); NDSize e = a.dataExtent(); need(e.size() == 1 && e[0] < 6); e[0] += 1; a.dataExtent(e); });
    add(1, "a1.dataExtent(-1)", [=](File &f) { DataArray a = A(f, b1, "a1"); NDSize e = a.dataExtent(); need(e.size() == 1 && e[0] > 0); e[0] -= 1; a.dataExtent(e); });
    add(1, "a1.setData(cell0)", [=](File &f) { DataArray a = A(f, b1, "a1"); NDSize e = a.dataExtent(); need(e.size() == 1 && e[0] > 0); double v = -9.25; a.setData(DataType::Double, &v, NDSize({1}), NDSize({0})); });
    // several growth steps through ONE handle that is still alive when the file is closed
    add(2, "a1.dataExtent(+1,+1,+2) + setData through one handle that outlives close()", [=](File &f) {
        DataArray a = A(f, b1, "a1"); NDSize e = a.dataExtent(); need(e.size() == 1 && e[0] < 4);
        for (int st : {1, 1, 2}) { e[0] += st; a.dataExtent(e); double v = 0.5 * (double)e[0]; a.setData(DataType::Double, &v, NDSize({1}), NDSize({e[0] - 1})); }
        outlive.arrays[a.id()] = a; });
    add(2, "a2.appendData(axis0) x3 through one handle that outlives close()", [=](File &f) {
        DataArray a = A(f, b1, "a2"); NDSize e = a.dataExtent(); need(e.size() == 2 && e[0] < 3 && e[1] > 0);
        for (int k = 0; k < 3; k++) { std::vector<int32_t> d(e[1], 7 + k); NDSize c2(2, 1); c2[1] = e[1]; a.appendData(DataType::Int32, d.data(), c2, 0); }
        outlive.arrays[a.id()] = a; });
    add(2, "a2.setData(whole)", [=](File &f) { DataArray a = A(f, b1, "a2"); NDSize e = a.dataExtent(); need(e.size() == 2 && e.nelms() > 0); std::vector<int32_t> d(e.nelms()); for (size_t i = 0; i < d.size(); i++) d[i] = 100 + (int)i; a.setData(DataType::Int32, d.data(), e, NDSize({0, 0})); });
    add(2, "a2.appendData(axis0)", [=](File &f) { DataArray a = A(f, b1, "a2"); NDSize e = a.dataExtent(); need(e.size() == 2 && e[0] < 4 && e[1] > 0); std::vector<int32_t> d(e[1], 7); a.appendData(DataType::Int32, d.data(), NDSize({ndsize_t(1), e[1]}), 0); });
    add(1, "a1.appendSetDimension", [=](File &f) { DataArray a = A(f, b1, "a1"); need(a.dimensionCount() < 2); a.appendSetDimension({"p", "q", "r"}); });
    add(1, "a1.appendSampledDimension", [=](File &f) { DataArray a = A(f, b1, "a1"); need(a.dimensionCount() < 2); a.appendSampledDimension(0.5, "time", "ms", 1.5); });
    add(1, "a1.appendRangeDimension", [=](File &f) { DataArray a = A(f, b1, "a1"); need(a.dimensionCount() < 2); a.appendRangeDimension({0.5, 1.0, 4.0}, "x", "s"); });
    add(1, "a1.appendAliasRangeDimension", [=](File &f) { DataArray a = A(f, b1, "a1"); need(a.dimensionCount() == 0); a.appendAliasRangeDimension(); });
    add(1, "a2.appendDataFrameDimension(f1,1)", [=](File &f) { DataArray a = A(f, b1, "a2"); need(a.dimensionCount() < 2); a.appendDataFrameDimension(F(f, b1, "f1"), 1u); });
    add(2, "a2.appendSetDimension()", [=](File &f) { DataArray a = A(f, b1, "a2"); need(a.dimensionCount() < 2); a.appendSetDimension(); });
    add(1, "a1.deleteDimensions", [=](File &f) { DataArray a = A(f, b1, "a1"); need(a.dimensionCount() > 0); a.deleteDimensions(); });
    add(2, "a1.dim1.label(l2)", [=](File &f) { Dimension d = DIM(f, b1, "a1", 1); switch (d.dimensionType()) { case DimensionType::Sample: d.asSampledDimension().label("l2"); break; case DimensionType::Set: d.asSetDimension().label("l2"); break; case DimensionType::Range: d.asRangeDimension().label("l2"); break; default: throw NotEnabled(); } });
    add(2, "a1.dim1.unit(s)", [=](File &f) { Dimension d = DIM(f, b1, "a1", 1); switch (d.dimensionType()) { case DimensionType::Sample: d.asSampledDimension().unit("s"); break; case DimensionType::Range: d.asRangeDimension().unit("s"); break; default: throw NotEnabled(); } });
    add(2, "a1.dim1.samplingInterval(2)", [=](File &f) { Dimension d = DIM(f, b1, "a1", 1); need(d.dimensionType() == DimensionType::Sample); d.asSampledDimension().samplingInterval(2.0); });
    add(2, "a1.dim1.offset(none)", [=](File &f) { Dimension d = DIM(f, b1, "a1", 1); need(d.dimensionType() == DimensionType::Sample); SampledDimension s = d.asSampledDimension(); need(bool(s.offset())); s.offset(boost::none); });
    add(2, "a1.dim1.ticks({1,2,3})", [=](File &f) { Dimension d = DIM(f, b1, "a1", 1); need(d.dimensionType() == DimensionType::Range); RangeDimension r = d.asRangeDimension(); need(!r.alias()); r.ticks({1.0, 2.0, 3.0}); });
    add(2, "a1.dim1.labels({z})", [=](File &f) { Dimension d = DIM(f, b1, "a1", 1); need(d.dimensionType() == DimensionType::Set); d.asSetDimension().labels({"z"}); });
    add(2, "a1.dim1.labels(none)", [=](File &f) { Dimension d = DIM(f, b1, "a1", 1); need(d.dimensionType() == DimensionType::Set); d.asSetDimension().labels(boost::none); });
    add(1, "a1.addSource(s1)", [=](File &f) { DataArray a = A(f, b1, "a1"); Source s = SRC(f, b1, {"s1"}); need(!a.hasSource(s)); a.addSource(s); });
    add(2, "a1.addSource(id s2)", [=](File &f) { DataArray a = A(f, b1, "a1"); Source s = SRC(f, b1, {"s1", "s2"}); need(!a.hasSource(s)); a.addSource(s.id()); });
    add(1, "a1.removeSource(s1)", [=](File &f) { DataArray a = A(f, b1, "a1"); Source s = SRC(f, b1, {"s1"}); need(a.hasSource(s)); a.removeSource(s); });
    add(2, "a1.sources({s1,s2})", [=](File &f) { DataArray a = A(f, b1, "a1"); a.sources({SRC(f, b1, {"s1"}), SRC(f, b1, {"s1", "s2"})}); });
    add(1, "a1.metadata(x1)", [=](File &f) { A(f, b1, "a1").metadata(SEC(f, {"x1"})); });
    add(2, "a2.metadata(x2)", [=](File &f) { A(f, b1, "a2").metadata(SEC(f, {"x1", "x2"})); });

    // ---------------- Tag ----------------
    add(1, "t1.position({2})", [=](File &f) { T(f, b1, "t1").position({2.0}); });
    add(1, "t1.extent({1})", [=](File &f) { T(f, b1, "t1").extent({1.0}); });
    add(2, "t1.extent(none)", [=](File &f) { Tag t = T(f, b1, "t1"); need(!t.extent().empty()); t.extent(boost::none); });
    add(1, "t1.units({ms})", [=](File &f) { T(f, b1, "t1").units({"ms"}); });
    add(2, "t1.units(none)", [=](File &f) { Tag t = T(f, b1, "t1"); need(!t.units().empty()); t.units(boost::none); });
    add(0, "t1.addReference(a1)", [=](File &f) { Tag t = T(f, b1, "t1"); DataArray a = A(f, b1, "a1"); need(!t.hasReference(a)); t.addReference(a); });
    add(1, "t1.addReference(name a2)", [=](File &f) { Tag t = T(f, b1, "t1"); DataArray a = A(f, b1, "a2"); need(!t.hasReference(a)); t.addReference("a2"); });
    add(2, "t2.addReference(id a1)", [=](File &f) { Tag t = T(f, b1, "t2"); DataArray a = A(f, b1, "a1"); need(!t.hasReference(a)); t.addReference(a.id()); });
    add(1, "t1.removeReference(a1)", [=](File &f) { Tag t = T(f, b1, "t1"); DataArray a = A(f, b1, "a1"); need(t.hasReference(a)); t.removeReference(a); });
    add(2, "t1.removeReference(name a2)", [=](File &f) { Tag t = T(f, b1, "t1"); DataArray a = A(f, b1, "a2"); need(t.hasReference(a)); t.removeReference("a2"); });
    add(2, "t1.references({a2,a1})", [=](File &f) { T(f, b1, "t1").references({A(f, b1, "a2"), A(f, b1, "a1")}); });
    add(1, "t1.createFeature(a2,Untagged)", [=](File &f) { Tag t = T(f, b1, "t1"); need(t.featureCount() < 2); t.createFeature(A(f, b1, "a2"), LinkType::Untagged); });
    add(2, "t1.createFeature(id a1,Tagged)", [=](File &f) { Tag t = T(f, b1, "t1"); need(t.featureCount() < 2); t.createFeature(A(f, b1, "a1").id(), LinkType::Tagged); });
    add(2, "t1.createFeature(a3,Indexed)", [=](File &f) { Tag t = T(f, b1, "t1"); need(t.featureCount() < 2); t.createFeature(A(f, b1, "a3"), LinkType::Indexed); });
    add(1, "t1.deleteFeature(0,id)", [=](File &f) { Tag t = T(f, b1, "t1"); t.deleteFeature(FEAT(t, 0).id()); });
    add(2, "t1.deleteFeature(0,handle)", [=](File &f) { Tag t = T(f, b1, "t1"); t.deleteFeature(FEAT(t, 0)); });
    add(2, "t1.feature0.linkType(Indexed)", [=](File &f) { Tag t = T(f, b1, "t1"); FEAT(t, 0).linkType(LinkType::Indexed); });
    add(2, "t1.feature0.data(a1)", [=](File &f) { Tag t = T(f, b1, "t1"); FEAT(t, 0).data(A(f, b1, "a1")); });
    add(1, "t1.addSource(s1)", [=](File &f) { Tag t = T(f, b1, "t1"); Source s = SRC(f, b1, {"s1"}); need(!t.hasSource(s)); t.addSource(s); });
    add(2, "t1.addSource(s3)", [=](File &f) { Tag t = T(f, b1, "t1"); Source s = SRC(f, b1, {"s1", "s2", "s3"}); need(!t.hasSource(s)); t.addSource(s); });
    add(1, "t1.metadata(x1)", [=](File &f) { T(f, b1, "t1").metadata(SEC(f, {"x1"})); });
    add(2, "t1.type(u)", [=](File &f) { T(f, b1, "t1").type("u"); });
    add(2, "t1.definition(d)", [=](File &f) { T(f, b1, "t1").definition("d"); });

    // ---------------- MultiTag ----------------
    add(2, "m1.positions(a4)", [=](File &f) { M(f, b1, "m1").positions(A(f, b1, "a4")); });
    add(2, "m1.positions(name a1)", [=](File &f) { M(f, b1, "m1").positions("a1"); });
    add(1, "m1.extents(a1)", [=](File &f) { MultiTag m = M(f, b1, "m1"); m.extents(A(f, b1, "a1")); });
    add(2, "m1.extents(none)", [=](File &f) { MultiTag m = M(f, b1, "m1"); need(bool(m.extents())); m.extents(boost::none); });
    add(2, "m1.units({mV})", [=](File &f) { M(f, b1, "m1").units({"mV"}); });
    add(1, "m1.addReference(a2)", [=](File &f) { MultiTag m = M(f, b1, "m1"); DataArray a = A(f, b1, "a2"); need(!m.hasReference(a)); m.addReference(a); });
    add(2, "m1.removeReference(a2)", [=](File &f) { MultiTag m = M(f, b1, "m1"); DataArray a = A(f, b1, "a2"); need(m.hasReference(a)); m.removeReference(a); });
    add(1, "m1.createFeature(a2,Indexed)", [=](File &f) { MultiTag m = M(f, b1, "m1"); need(m.featureCount() < 2); m.createFeature(A(f, b1, "a2"), LinkType::Indexed); });
    add(2, "m1.deleteFeature(0)", [=](File &f) { MultiTag m = M(f, b1, "m1"); m.deleteFeature(FEAT(m, 0).id()); });
    add(2, "m1.addSource(s2)", [=](File &f) { MultiTag m = M(f, b1, "m1"); Source s = SRC(f, b1, {"s1", "s2"}); need(!m.hasSource(s)); m.addSource(s); });
    add(2, "m1.metadata(y1)", [=](File &f) { M(f, b1, "m1").metadata(SEC(f, {"y1"})); });

    // ---------------- Group ----------------
    add(1, "g1.addDataArray(a1)", [=](File &f) { Group g = G(f, b1, "g1"); DataArray a = A(f, b1, "a1"); need(!g.hasDataArray(a)); g.addDataArray(a); });
    add(2, "g1.addDataArray(name a2)", [=](File &f) { Group g = G(f, b1, "g1"); DataArray a = A(f, b1, "a2"); need(!g.hasDataArray(a)); g.addDataArray("a2"); });
    add(1, "g1.removeDataArray(a1)", [=](File &f) { Group g = G(f, b1, "g1"); DataArray a = A(f, b1, "a1"); need(g.hasDataArray(a)); g.removeDataArray(a); });
    add(1, "g1.addDataFrame(f1)", [=](File &f) { Group g = G(f, b1, "g1"); DataFrame a = F(f, b1, "f1"); need(!g.hasDataFrame(a)); g.addDataFrame(a); });
    add(1, "g1.addTag(t1)", [=](File &f) { Group g = G(f, b1, "g1"); Tag a = T(f, b1, "t1"); need(!g.hasTag(a)); g.addTag(a); });
    add(2, "g1.removeTag(t1)", [=](File &f) { Group g = G(f, b1, "g1"); Tag a = T(f, b1, "t1"); need(g.hasTag(a)); g.removeTag(a); });
    add(1, "g1.addMultiTag(m1)", [=](File &f) { Group g = G(f, b1, "g1"); MultiTag a = M(f, b1, "m1"); need(!g.hasMultiTag(a)); g.addMultiTag(a); });
    add(2, "g1.dataArrays({a2,a1})", [=](File &f) { G(f, b1, "g1").dataArrays({A(f, b1, "a2"), A(f, b1, "a1")}); });
    add(2, "g1.tags({})", [=](File &f) { Group g = G(f, b1, "g1"); need(g.tagCount() > 0); g.tags(std::vector<Tag>{}); });
    // ---- link attempts across blocks (the target lives in b2): refused by the library today; if a version accepts one, the result is
    //      an ordinary state for every check that explores histories (ids distinct, persistence, deletion ...)
    add(2, "t1.createFeature(b2.a1) [other block]", [=](File &f) { T(f, b1, "t1").createFeature(A(f, b2, "a1"), LinkType::Untagged); });
    add(2, "t1.createFeature(id of b2.a1) [other block]", [=](File &f) { T(f, b1, "t1").createFeature(A(f, b2, "a1").id(), LinkType::Tagged); });
    add(2, "t1.addReference(b2.a1) [other block]", [=](File &f) { T(f, b1, "t1").addReference(A(f, b2, "a1")); });
    add(2, "m1.createFeature(b2.a1) [other block]", [=](File &f) { M(f, b1, "m1").createFeature(A(f, b2, "a1"), LinkType::Indexed); });
    add(2, "g1.addDataArray(b2.a1) [other block]", [=](File &f) { G(f, b1, "g1").addDataArray(A(f, b2, "a1")); });
    add(2, "t1.feature(0).data(b2.a1) [other block]", [=](File &f) { Tag t = T(f, b1, "t1"); need(t.featureCount() > 0); t.getFeature(0).data(A(f, b2, "a1")); });
    // ... and with an array whose NAME does not occur in b1 (seed R3)
    add(2, "t1.createFeature(b2.only2) [other block]", [=](File &f) { T(f, b1, "t1").createFeature(A(f, b2, "only2"), LinkType::Untagged); });
    add(2, "t1.createFeature(id of b2.only2) [other block]", [=](File &f) { T(f, b1, "t1").createFeature(A(f, b2, "only2").id(), LinkType::Tagged); });
    add(2, "m1.createFeature(id of b2.only2) [other block]", [=](File &f) { M(f, b1, "m1").createFeature(A(f, b2, "only2").id(), LinkType::Indexed); });
    add(2, "t1.feature(0).data(id of b2.only2) [other block]", [=](File &f) { Tag t = T(f, b1, "t1"); need(t.featureCount() > 0); t.getFeature(0).data(A(f, b2, "only2").id()); });
    add(2, "t1.addReference(id of b2.only2) [other block]", [=](File &f) { T(f, b1, "t1").addReference(A(f, b2, "only2").id()); });
    add(2, "g1.addDataArray(id of b2.only2) [other block]", [=](File &f) { G(f, b1, "g1").addDataArray(A(f, b2, "only2").id()); });
    add(2, "g1.multiTags({m1})", [=](File &f) { Group g = G(f, b1, "g1"); g.multiTags(std::vector<MultiTag>{M(f, b1, "m1")}); });
    add(2, "g1.dataFrames({f1})", [=](File &f) { Group g = G(f, b1, "g1"); g.dataFrames(std::vector<DataFrame>{F(f, b1, "f1")}); });
    add(2, "g1.removeMultiTag(m1)", [=](File &f) { Group g = G(f, b1, "g1"); MultiTag a = M(f, b1, "m1"); need(g.hasMultiTag(a)); g.removeMultiTag(a); });
    add(2, "g1.removeDataFrame(f1)", [=](File &f) { Group g = G(f, b1, "g1"); DataFrame a = F(f, b1, "f1"); need(g.hasDataFrame(a)); g.removeDataFrame(a); });
    add(2, "g1.addSource(s1)", [=](File &f) { Group g = G(f, b1, "g1"); Source s = SRC(f, b1, {"s1"}); need(!g.hasSource(s)); g.addSource(s); });
    add(2, "g1.metadata(x1)", [=](File &f) { G(f, b1, "g1").metadata(SEC(f, {"x1"})); });

    // ---------------- Section / Property ----------------
    add(1, "x1.createSection(x2)", [=](File &f) { Section s = SEC(f, {"x1"}); need(!s.hasSection("x2")); s.createSection("x2", "t"); });
    add(2, "x2.createSection(x3)", [=](File &f) { Section s = SEC(f, {"x1", "x2"}); need(!s.hasSection("x3")); s.createSection("x3", "t"); });
    add(2, "x3.createSection(x4)", [=](File &f) { Section s = SEC(f, {"x1", "x2", "x3"}); need(!s.hasSection("x4")); s.createSection("x4", "u"); });
    add(1, "x1.deleteSection(x2,name)", [=](File &f) { SEC(f, {"x1", "x2"}); SEC(f, {"x1"}).deleteSection("x2"); });
    add(2, "x1.deleteSection(x2,handle)", [=](File &f) { SEC(f, {"x1"}).deleteSection(SEC(f, {"x1", "x2"})); });
    add(2, "x2.deleteSection(x3,id)", [=](File &f) { SEC(f, {"x1", "x2"}).deleteSection(SEC(f, {"x1", "x2", "x3"}).id()); });
    add(1, "x1.repository(r)", [=](File &f) { SEC(f, {"x1"}).repository("http://r"); });
    add(2, "x1.repository(none)", [=](File &f) { Section s = SEC(f, {"x1"}); need(bool(s.repository())); s.repository(boost::none); });
    add(1, "x1.link(y1)", [=](File &f) { SEC(f, {"x1"}).link(SEC(f, {"y1"})); });
    add(2, "x2.link(id x1)", [=](File &f) { SEC(f, {"x1", "x2"}).link(SEC(f, {"x1"}).id()); });
    add(2, "x1.link(none)", [=](File &f) { Section s = SEC(f, {"x1"}); need(bool(s.link())); s.link(boost::none); });
    add(2, "x1.type(u)", [=](File &f) { SEC(f, {"x1"}).type("u"); });
    add(2, "x1.definition(d)", [=](File &f) { SEC(f, {"x1"}).definition("d"); });
    add(0, "x1.createProperty(p1,Double)", [=](File &f) { Section s = SEC(f, {"x1"}); need(!s.hasProperty("p1")); Property p = s.createProperty("p1", DataType::Double); p.values({Variant(1.5), Variant(-2.0)}); });
    add(1, "x1.createProperty(p2,strings)", [=](File &f) { Section s = SEC(f, {"x1"}); need(!s.hasProperty("p2")); s.createProperty("p2", std::vector<Variant>{Variant("v1"), Variant("\xc3\xa4"), Variant("")}); });
    add(2, "y1.createProperty(p1,Int64)", [=](File &f) { Section s = SEC(f, {"y1"}); need(!s.hasProperty("p1")); s.createProperty("p1", Variant(int64_t(-5))); });
    add(2, "x2.createProperty(p3,Bool)", [=](File &f) { Section s = SEC(f, {"x1", "x2"}); need(!s.hasProperty("p3")); s.createProperty("p3", std::vector<Variant>{Variant(true), Variant(false)}); });
    add(0, "x1.deleteProperty(p1,name)", [=](File &f) { P(f, {"x1"}, "p1"); SEC(f, {"x1"}).deleteProperty("p1"); });
    add(2, "x1.deleteProperty(p2,handle)", [=](File &f) { SEC(f, {"x1"}).deleteProperty(P(f, {"x1"}, "p2")); });
    add(2, "x1.deleteProperty(p1,id)", [=](File &f) { SEC(f, {"x1"}).deleteProperty(P(f, {"x1"}, "p1").id()); });
    add(1, "p1.values({3})", [=](File &f) { P(f, {"x1"}, "p1").values({Variant(3.25)}); });
    add(2, "p1.deleteValues", [=](File &f) { P(f, {"x1"}, "p1").deleteValues(); });
    add(1, "p1.unit(mV)", [=](File &f) { P(f, {"x1"}, "p1").unit("mV"); });
    add(2, "p1.unit(none)", [=](File &f) { Property p = P(f, {"x1"}, "p1"); need(bool(p.unit())); p.unit(boost::none); });
    add(2, "p1.uncertainty(0.1)", [=](File &f) { P(f, {"x1"}, "p1").uncertainty(0.1); });
    add(2, "p1.definition(d)", [=](File &f) { P(f, {"x1"}, "p1").definition("d"); });

    // ---------------- DataFrame ----------------
    add(2, "f1.rows(3)", [=](File &f) { DataFrame d = F(f, b1, "f1"); need(d.rows() != 3); d.rows(3); });
    add(2, "f1.rows(1)", [=](File &f) { DataFrame d = F(f, b1, "f1"); need(d.rows() != 1); d.rows(1); });
    add(2, "f1.writeCell(0,c1)", [=](File &f) { DataFrame d = F(f, b1, "f1"); need(d.rows() > 0); d.writeCell(0, 1, Variant(int64_t(99))); });
    add(2, "f1.addSource(s1)", [=](File &f) { DataFrame d = F(f, b1, "f1"); Source s = SRC(f, b1, {"s1"}); need(!d.hasSource(s)); d.addSource(s); });
    add(2, "f1.metadata(x1)", [=](File &f) { F(f, b1, "f1").metadata(SEC(f, {"x1"})); });

    // ---------------- names that look like ids (unguarded creates: the second one must be rejected) ----------------
    const std::string uu = "0f1e2d3c-4b5a-6978-8796-a5b4c3d2e1f0";
    add(2, "b1.createTag(<uuid-shaped name>)", [=](File &f) { B(f, b1).createTag(uu, "t", {1.0}); });
    add(2, "b1.createGroup(<uuid-shaped name>)", [=](File &f) { B(f, b1).createGroup(uu, "t"); });
    add(2, "b1.createDataArray(<uuid-shaped name>)", [=](File &f) { B(f, b1).createDataArray(uu, "t", DataType::Double, NDSize({2})); });

    // ---------------- chained: the handle RETURNED BY create* is used for the follow-up calls (appended last) ----------------
    // (a creating constructor and an opening constructor of the back end are different code: every other operation of this
    //  alphabet fetches its entity afresh and therefore only ever exercises the opening one)
    add(1, "b1.createGroup(gc)+members via the creation handle", [=](File &f) { Block b = B(f, b1); need(!b.hasGroup("gc"));
        need(b.hasDataArray("a1") || b.hasDataFrame("f1") || b.hasTag("t1") || b.hasMultiTag("m1"));
        Group g = b.createGroup("gc", "t");
        if (b.hasDataArray("a1")) g.addDataArray(b.getDataArray("a1")); if (b.hasDataFrame("f1")) g.addDataFrame(b.getDataFrame("f1"));
        if (b.hasTag("t1")) g.addTag(b.getTag("t1")); if (b.hasMultiTag("m1")) g.addMultiTag(b.getMultiTag("m1")); g.definition("dg"); created.groups[g.id()] = g; });
    add(1, "b1.createTag(tc)+reference,feature,source,metadata via the creation handle", [=](File &f) { Block b = B(f, b1); need(!b.hasTag("tc")); DataArray a = A(f, b1, "a1");
        Tag t = b.createTag("tc", "t", {0.5}); t.extent({1.0}); t.addReference(a); t.createFeature(a, LinkType::Untagged); t.definition("dt");
        if (b.hasSource("s1")) t.addSource(b.getSource("s1")); if (f.hasSection("x1")) t.metadata(f.getSection("x1")); created.tags[t.id()] = t; });
    add(1, "b1.createMultiTag(mc,a1)+extents,reference,feature via the creation handle", [=](File &f) { Block b = B(f, b1); need(!b.hasMultiTag("mc")); DataArray a = A(f, b1, "a1");
        MultiTag m = b.createMultiTag("mc", "t", a); m.extents(a); m.addReference(a); m.createFeature(a, LinkType::Untagged);
        if (b.hasSource("s1")) m.addSource(b.getSource("s1")); created.mtags[m.id()] = m; });
    add(1, "createSection(xc)+property,child,link via the creation handle", [=](File &f) { need(!f.hasSection("xc"));
        Section s = f.createSection("xc", "t"); s.createProperty("pc", Variant(2.5)).unit("mV"); s.createSection("xcc", "u").createProperty("pcc", Variant("v")); s.repository("r");
        if (f.hasSection("x1")) s.link(f.getSection("x1")); created.sections[s.id()] = s; });
    add(1, "b1.createSource(sc)+child,definition via the creation handle", [=](File &f) { Block b = B(f, b1); need(!b.hasSource("sc"));
        Source s = b.createSource("sc", "t"); s.definition("ds"); s.createSource("scc", "u").definition("dss"); if (f.hasSection("x1")) s.metadata(f.getSection("x1")); created.sources[s.id()] = s; });
    add(1, "b1.createDataArray(ac)+dimension,unit,source,metadata via the creation handle", [=](File &f) { Block b = B(f, b1); need(!b.hasDataArray("ac"));
        DataArray a = b.createDataArray("ac", "t", DataType::Double, NDSize({2})); a.setData(std::vector<double>{0.25, 0.75}); a.appendSampledDimension(0.5, "lbl", "ms", 1.0); a.unit("mV"); a.label("la");
        a.polynomCoefficients({0.0, 2.0}); if (b.hasSource("s1")) a.addSource(b.getSource("s1")); if (f.hasSection("x1")) a.metadata(f.getSection("x1")); created.arrays[a.id()] = a; });
    add(2, "createBlock(bc)+array,tag,group via the creation handle", [=](File &f) { need(!f.hasBlock("bc"));
        Block b = f.createBlock("bc", "t"); DataArray a = b.createDataArray("a1", "t", DataType::Double, NDSize({2})); Tag t = b.createTag("t1", "t", {0.0}); t.addReference(a);
        Group g = b.createGroup("g1", "t"); g.addDataArray(a); g.addTag(t); b.definition("db"); created.blocks[b.id()] = b; created.groups[g.id()] = g; created.tags[t.id()] = t; created.arrays[a.id()] = a; });
    return v;
}

// ---------------------------------------------------------------- seeds
void build_seed_r1(File &f) {
    Section x1 = f.createSection("x1", "t");
    Section x2 = x1.createSection("x2", "t");
    Section y1 = f.createSection("y1", "u");
    x1.link(y1);
    x1.repository("http://r");
    Property p1 = x1.createProperty("p1", DataType::Double);
    p1.values({Variant(1.5), Variant(-2.0)});
    p1.unit("mV");
    x1.createProperty("p2", std::vector<Variant>{Variant("v1"), Variant("\xc3\xa4")});
    y1.createProperty("p1", Variant(int64_t(-5)));
    x2.createProperty("p3", std::vector<Variant>{Variant(true), Variant(false)});

    Block b = f.createBlock("b1", "t");
    b.definition("d1");
    b.metadata(x1);
    Source s1 = b.createSource("s1", "t");
    Source s2 = s1.createSource("s2", "t");
    Source s3 = s2.createSource("s3", "t");
    s1.metadata(x2);
    DataArray a1 = b.createDataArray("a1", "t", DataType::Double, NDSize({3}));
    a1.setData(std::vector<double>{1.5, 2.5, 4.0});
    a1.label("L"); a1.unit("mV");
    a1.appendSampledDimension(0.5, "time", "ms", 1.5);
    a1.addSource(s1);
    a1.metadata(x1);
    DataArray a2 = b.createDataArray("a2", "t", DataType::Int32, NDSize({2, 3}));
    std::vector<int32_t> d = {1, 2, 3, 4, 5, 6};
    a2.setData(DataType::Int32, d.data(), NDSize({2, 3}), NDSize({0, 0}));
    a2.appendSetDimension({"p", "q"});
    a2.appendRangeDimension({0.5, 1.0, 4.0}, "x", "s");
    DataArray a3 = b.createDataArray("a3", "u", DataType::String, NDSize({2}));
    a3.setData(std::vector<std::string>{"x", "\xc3\xa4"});
    DataArray a4 = b.createDataArray("a4", "t", std::vector<double>{0.0, 1.0, 2.0});
    a4.appendAliasRangeDimension();
    std::vector<Column> cols = {{"c0", "", DataType::Double}, {"c1", "mV", DataType::Int64}, {"c2", "", DataType::String}};
    DataFrame f1 = b.createDataFrame("f1", "t", cols);
    f1.rows(2);
    f1.writeRow(0, {Variant(1.5), Variant(int64_t(-7)), Variant("r0")});
    f1.writeRow(1, {Variant(2.5), Variant(int64_t(8)), Variant("r1")});
    f1.addSource(s2);
    DataArray a5 = b.createDataArray("a5", "t", DataType::Double, NDSize({2}));
    a5.appendDataFrameDimension(f1, 1u);
    Tag t1 = b.createTag("t1", "t", {1.0});
    t1.extent({1.0}); t1.units({"ms"});
    t1.addReference(a1);
    t1.createFeature(a2, LinkType::Untagged);
    t1.addSource(s3);
    t1.metadata(x2);
    Tag t2 = b.createTag("t2", "u", {0.0, 1.0});
    t2.addReference(a2);
    t2.addReference(a1);
    MultiTag m1 = b.createMultiTag("m1", "t", a1);
    m1.extents(a4);
    m1.addReference(a2);
    m1.createFeature(a3, LinkType::Indexed);
    m1.addSource(s1);
    m1.metadata(y1);
    Group g1 = b.createGroup("g1", "t");
    g1.addDataArray(a1); g1.addDataArray(a2);
    g1.addDataFrame(f1);
    g1.addTag(t1);
    g1.addMultiTag(m1);
    g1.addSource(s1);
    g1.metadata(x1);
}

void build_seed_r2(File &f) {
    Section x1 = f.createSection("x1", "t");
    Section x2 = x1.createSection("x2", "t");
    Section x3 = x2.createSection("x3", "t");
    Section x4 = x3.createSection("x4", "u");
    Section y1 = f.createSection("y1", "u");
    x4.link(x1);
    y1.link(x3);
    x3.createProperty("p1", std::vector<Variant>{Variant(uint64_t(18446744073709551615ULL)), Variant(uint64_t(0))});
    Block b = f.createBlock("b1", "t");
    Block c = f.createBlock("b2", "u");
    Source s1 = b.createSource("s1", "t");
    Source s2 = s1.createSource("s2", "t");
    Source s3 = s2.createSource("s3", "t");
    Source s4 = s3.createSource("s4", "t");
    Source s5 = b.createSource("s5", "u");
    s1.createSource("s2b", "u");
    DataArray a1 = b.createDataArray("a1", "t", DataType::Double, NDSize({3}));
    a1.setData(std::vector<double>{0.5, 1.0, 4.0});
    DataArray a2 = b.createDataArray("a2", "t", DataType::Int32, NDSize({2, 3}));
    Tag t1 = b.createTag("t1", "t", {1.0});
    Tag t2 = b.createTag("t2", "u", {0.0, 1.0});
    MultiTag m1 = b.createMultiTag("m1", "t", a1);
    // one target (s4, x3) linked from many holders
    for (int i = 0; i < 1; i++) { a1.addSource(s4); a2.addSource(s4); t1.addSource(s4); m1.addSource(s4); }
    b.metadata(x3); a1.metadata(x3); t1.metadata(x3); m1.metadata(x3); s5.metadata(x3); c.metadata(x3);
    t1.addReference(a1); t2.addReference(a1); m1.addReference(a1);
    t1.createFeature(a1, LinkType::Tagged); t2.createFeature(a1, LinkType::Untagged);
    DataArray ca = c.createDataArray("a1", "t", DataType::Double, NDSize({2}));
    c.createTag("t1", "t", {0.0}).addReference(ca);
}

void build_seed_r3(File &f) {
    build_seed_r1(f);
    Block b = f.getBlock("b1");
    Block c = f.createBlock("b2", "u");
    DataArray ca = c.createDataArray("a1", "t", DataType::Double, NDSize({2}));
    c.createSource("s1", "t");
    c.createTag("t1", "t", {0.0}).addReference(ca);
    Tag t1 = b.getTag("t1");
    t1.addReference(b.getDataArray("a2"));
    t1.createFeature(b.getDataArray("a3"), LinkType::Indexed);
    DataArray a1 = b.getDataArray("a1");
    a1.addSource(b.getSource("s1").getSource("s2"));
    MultiTag m1 = b.getMultiTag("m1");
    m1.addReference(b.getDataArray("a1"));
    m1.createFeature(b.getDataArray("a2"), LinkType::Untagged);
    Group g1 = b.getGroup("g1");
    g1.addTag(b.getTag("t2"));
    b.getSource("s1").createSource("s2b", "u");
    f.getSection("x1").createSection("x2b", "u");
    DataFrame f2 = b.createDataFrame("f2", "u", std::vector<Column>{{"k", "", DataType::Int32}});
    g1.addDataFrame(f2);
    MultiTag m2 = b.createMultiTag("m2", "u", b.getDataArray("a4"));
    g1.addMultiTag(m2);
    c.createDataFrame("f1", "t", std::vector<Column>{{"k", "", DataType::Int32}});   // a frame OUTSIDE b1 (C08: foreign frame as dimension)
    c.createDataArray("only2", "t", DataType::Double, NDSize({2})).setData(std::vector<double>{7.5, 8.5});   // a name that does not occur in b1
    // entities whose NAME has the shape of an id (the last ones of their containers)
    b.createDataArray("0f1e2d3c-4b5a-4978-8796-a5b4c3d2e1f0", "t", DataType::Double, NDSize({2})).setData(std::vector<double>{1.5, 2.5});
    b.createDataFrame("1f1e2d3c-4b5a-4978-8796-a5b4c3d2e1f1", "t", std::vector<Column>{{"k", "", DataType::Int32}});
    b.createTag("2f1e2d3c-4b5a-4978-8796-a5b4c3d2e1f2", "t", {1.0});
    c.createMultiTag("m1", "t", ca);                                                  // and a multi-tag outside b1
}

} // namespace ops
