#include "obs.hpp"
#include "vf.hpp"

#include <cstdio>
#include <cstring>
#include <sstream>
#include <typeinfo>
#include <functional>
#include <memory>
#include <cxxabi.h>

using namespace nix;

namespace obs {

// ------------------------------------------------------------------ helpers
static std::string exc_name(const std::exception &e) {
    int st = 0;
    char *dn = abi::__cxa_demangle(typeid(e).name(), nullptr, nullptr, &st);
    std::string n = dn ? dn : typeid(e).name();
    free(dn);
    return "!exc:" + n;
}

template <typename F> static std::string S(F f) {
    try { return f(); } catch (const std::exception &e) { return exc_name(e); } catch (...) { return "!exc:unknown"; }
}

static std::string q(const std::string &s) { return vf::jstr(s); }
static std::string oq(const boost::optional<std::string> &s) { return s ? q(*s) : "-"; }
static std::string od(const boost::optional<double> &d) { return d ? vf::hexd(*d) : "-"; }

std::string dtype_str(DataType t) {
    switch (t) {
    case DataType::Bool: return "Bool"; case DataType::Char: return "Char"; case DataType::Float: return "Float";
    case DataType::Double: return "Double"; case DataType::Int8: return "Int8"; case DataType::Int16: return "Int16";
    case DataType::Int32: return "Int32"; case DataType::Int64: return "Int64"; case DataType::UInt8: return "UInt8";
    case DataType::UInt16: return "UInt16"; case DataType::UInt32: return "UInt32"; case DataType::UInt64: return "UInt64";
    case DataType::String: return "String"; case DataType::Opaque: return "Opaque"; default: return "Nothing";
    }
}

std::string variant_str(const Variant &v) {
    switch (v.type()) {
    case DataType::Bool: return std::string("b:") + (v.get<bool>() ? "1" : "0");
    case DataType::Int32: return "i32:" + std::to_string(v.get<int32_t>());
    case DataType::UInt32: return "u32:" + std::to_string(v.get<uint32_t>());
    case DataType::Int64: return "i64:" + std::to_string(v.get<int64_t>());
    case DataType::UInt64: return "u64:" + std::to_string(v.get<uint64_t>());
    case DataType::Double: return "d:" + vf::hexd(v.get<double>());
    case DataType::String: return "s:" + q(v.get<std::string>());
    case DataType::Nothing: return "nothing";
    default: return "?" + dtype_str(v.type());
    }
}

static std::string ndsize_str(const NDSize &s) {
    std::string o = "{";
    for (size_t i = 0; i < s.size(); i++) { if (i) o += ","; o += std::to_string(s[i]); }
    return o + "}";
}

template <typename T> static std::string num_list(const T *p, size_t n) {
    std::string o = "[";
    for (size_t i = 0; i < n; i++) { if (i) o += ","; o += std::to_string(p[i]); }
    return o + "]";
}
template <> std::string num_list<double>(const double *p, size_t n) {
    std::string o = "[";
    for (size_t i = 0; i < n; i++) { if (i) o += ","; o += vf::hexd(p[i]); }
    return o + "]";
}
template <> std::string num_list<float>(const float *p, size_t n) {
    std::string o = "[";
    for (size_t i = 0; i < n; i++) { if (i) o += ","; o += vf::hexd(p[i]); }
    return o + "]";
}

template <typename T> static std::string read_num(const DataArray &a, DataType dt, const NDSize &ext, size_t n) {
    std::vector<T> buf(n);
    a.getDataDirect(dt, buf.data(), ext, NDSize(ext.size(), 0));
    return num_list<T>(buf.data(), n);
}

std::string array_data(const DataArray &a) {
    NDSize ext = a.dataExtent();
    size_t n = ext.size() == 0 ? 0 : ext.nelms();
    if (n == 0) return "[]";
    DataType dt = a.dataType();
    std::string txt;
    switch (dt) {
    case DataType::Bool: {
        std::unique_ptr<bool[]> buf(new bool[n]);
        memset(buf.get(), 0, n);
        a.getDataDirect(dt, buf.get(), ext, NDSize(ext.size(), 0));
        txt = "[";
        for (size_t i = 0; i < n; i++) { if (i) txt += ","; txt += buf[i] ? "1" : "0"; }
        txt += "]";
        break;
    }
    case DataType::Int8: { std::vector<int8_t> b(n); a.getDataDirect(dt, b.data(), ext, NDSize(ext.size(), 0)); std::vector<int> c(b.begin(), b.end()); txt = num_list<int>(c.data(), n); break; }
    case DataType::UInt8: { std::vector<uint8_t> b(n); a.getDataDirect(dt, b.data(), ext, NDSize(ext.size(), 0)); std::vector<int> c(b.begin(), b.end()); txt = num_list<int>(c.data(), n); break; }
    case DataType::Int16: txt = read_num<int16_t>(a, dt, ext, n); break;
    case DataType::UInt16: txt = read_num<uint16_t>(a, dt, ext, n); break;
    case DataType::Int32: txt = read_num<int32_t>(a, dt, ext, n); break;
    case DataType::UInt32: txt = read_num<uint32_t>(a, dt, ext, n); break;
    case DataType::Int64: txt = read_num<int64_t>(a, dt, ext, n); break;
    case DataType::UInt64: txt = read_num<uint64_t>(a, dt, ext, n); break;
    case DataType::Float: txt = read_num<float>(a, dt, ext, n); break;
    case DataType::Double: txt = read_num<double>(a, dt, ext, n); break;
    case DataType::String: {
        std::vector<std::string> b(n);
        a.getDataDirect(dt, b.data(), ext, NDSize(ext.size(), 0));
        txt = vf::jvecs(b);
        break;
    }
    default: txt = "?" + dtype_str(dt);
    }
    if (txt.size() > 6000) { char buf[64]; snprintf(buf, sizeof buf, "hash:%016llx/n=%zu", (unsigned long long)vf::fnv(txt), n); return buf; }
    return txt;
}

// ------------------------------------------------------------------ Node
std::string Node::get(const std::string &k) const { for (auto &kv : scal) if (kv.first == k) return kv.second; return ""; }
void Node::set(const std::string &k, const std::string &v) { for (auto &kv : scal) if (kv.first == k) { kv.second = v; return; } scal.emplace_back(k, v); }
std::vector<std::string> *Node::link(const std::string &k) { for (auto &kv : links) if (kv.first == k) return &kv.second; return nullptr; }
std::vector<Node> *Node::container(const std::string &k) { for (auto &kv : kids) if (kv.first == k) return &kv.second; return nullptr; }

void walk(Node &n, const std::function<void(Node &)> &f) { f(n); for (auto &c : n.kids) for (auto &k : c.second) walk(k, f); }
void walk(const Node &n, const std::function<void(const Node &)> &f) { f(n); for (auto &c : n.kids) for (auto &k : c.second) walk(k, f); }
void collect_ids(const Node &n, std::set<std::string> &ids) { walk(n, [&](const Node &x) { if (!x.id.empty()) ids.insert(x.id); }); }
Node *find(Node &root, const std::string &id) {
    Node *r = nullptr;
    walk(root, [&](Node &x) { if (!r && x.id == id) r = &x; });
    return r;
}
void remove_entities(Node &root, const std::set<std::string> &ids) {
    walk(root, [&](Node &x) {
        for (auto &c : x.kids) {
            std::vector<Node> keep;
            for (auto &k : c.second) if (k.id.empty() || !ids.count(k.id)) keep.push_back(k);
            c.second.swap(keep);
        }
        for (auto &l : x.links) {
            std::vector<std::string> keep;
            for (auto &t : l.second) if (!ids.count(t)) keep.push_back(t);
            l.second.swap(keep);
        }
    });
}

std::string render(const Node &n, int indent) {
    std::string pad(indent * 2, ' ');
    std::string o = pad + n.kind;
    if (!n.id.empty()) o += " id=" + n.id;
    if (!n.name.empty() || n.kind != "Dim") o += " name=" + q(n.name);
    for (auto &kv : n.scal) o += " " + kv.first + "=" + kv.second;
    for (auto &kv : n.links) { o += " " + kv.first + "=["; for (size_t i = 0; i < kv.second.size(); i++) { if (i) o += ","; o += kv.second[i]; } o += "]"; }
    o += "\n";
    for (auto &c : n.kids) {
        o += pad + " ." + c.first + " n=" + std::to_string(c.second.size()) + "\n";
        for (auto &k : c.second) o += render(k, indent + 1);
    }
    return o;
}

static bool is_hex(char c) { return (c >= '0' && c <= '9') || (c >= 'a' && c <= 'f'); }
static bool uuid_at(const std::string &t, size_t i) {
    static const int dash[] = {8, 13, 18, 23};
    if (i + 36 > t.size()) return false;
    for (int k = 0; k < 36; k++) {
        bool d = (k == dash[0] || k == dash[1] || k == dash[2] || k == dash[3]);
        if (d ? t[i + k] != '-' : !is_hex(t[i + k])) return false;
    }
    return true;
}
std::string symbolize(const std::string &t) {
    std::map<std::string, int> m;
    std::string o;
    o.reserve(t.size());
    for (size_t i = 0; i < t.size();) {
        if (uuid_at(t, i) && (i == 0 || !is_hex(t[i - 1])) && (i + 36 == t.size() || !is_hex(t[i + 36]))) {
            std::string u = t.substr(i, 36);
            auto it = m.find(u);
            int k = it == m.end() ? (m[u] = (int)m.size()) : it->second;
            o += "#" + std::to_string(k);
            i += 36;
        } else o += t[i++];
    }
    return o;
}

std::string diff(const std::string &a, const std::string &b, size_t max_lines) {
    std::vector<std::string> la, lb;
    { std::istringstream s(a); std::string l; while (std::getline(s, l)) la.push_back(l); }
    { std::istringstream s(b); std::string l; while (std::getline(s, l)) lb.push_back(l); }
    // LCS-free cheap diff: multiset difference preserving order
    std::multiset<std::string> sa(la.begin(), la.end()), sb(lb.begin(), lb.end());
    std::string o;
    size_t n = 0;
    for (auto &l : la) { auto it = sb.find(l); if (it != sb.end()) sb.erase(it); else if (n++ < max_lines) o += "- " + l + "\n"; }
    for (auto &l : lb) { auto it = sa.find(l); if (it != sa.end()) sa.erase(it); else if (n++ < max_lines) o += "+ " + l + "\n"; }
    if (n > max_lines) o += "... (" + std::to_string(n - max_lines) + " more differing lines)\n";
    if (o.empty() && a != b) o = "(texts differ only in line order)\n";
    return o;
}

// ------------------------------------------------------------------ the walk
namespace {

struct W {
    Options o;
    Pool *pool = nullptr;

    template <typename E> void named(Node &n, const E &e) {
        n.id = S([&] { return e.id(); });
        n.name = S([&] { return e.name(); });
        n.scal.emplace_back("type", S([&] { return q(e.type()); }));
        n.scal.emplace_back("def", S([&] { return oq(e.definition()); }));
        if (o.created_at) n.scal.emplace_back("created", S([&] { return std::to_string((long)e.createdAt()); }));
        if (o.updated_at) n.scal.emplace_back("updated", S([&] { return std::to_string((long)e.updatedAt()); }));
    }

    template <typename E> void metadata(Node &n, const E &e) {
        std::vector<std::string> v;
        std::string r = S([&] { Section s = e.metadata(); if (s) v.push_back(s.id()); return std::string(); });
        if (!r.empty()) v.push_back(r);
        n.links.emplace_back("md", v);
    }

    template <typename E> void sources(Node &n, const E &e) {
        std::vector<std::string> v;
        std::string r = S([&] {
            size_t c = e.sourceCount();
            for (size_t i = 0; i < c; i++) v.push_back(S([&] { return e.getSource(i).id(); }));
            return std::string();
        });
        if (!r.empty()) v.push_back(r);
        n.links.emplace_back("src", v);
        if (o.lookups) {
            std::string lk;
            for (auto &id : v) lk += S([&] { return std::string(e.hasSource(id) ? "1" : "0"); });
            n.scal.emplace_back("src_has", lk.empty() ? "-" : lk);
        }
    }

    Node dim(const Dimension &d) {
        Node n; n.kind = "Dim";
        n.scal.emplace_back("index", S([&] { return std::to_string(d.index()); }));
        DimensionType t = d.dimensionType();
        if (t == DimensionType::Sample) {
            SampledDimension s = d.asSampledDimension();
            n.scal.emplace_back("kind", "sampled");
            n.scal.emplace_back("interval", S([&] { return vf::hexd(s.samplingInterval()); }));
            n.scal.emplace_back("offset", S([&] { return od(s.offset()); }));
            n.scal.emplace_back("unit", S([&] { return oq(s.unit()); }));
            n.scal.emplace_back("label", S([&] { return oq(s.label()); }));
        } else if (t == DimensionType::Set) {
            SetDimension s = d.asSetDimension();
            n.scal.emplace_back("kind", "set");
            n.scal.emplace_back("labels", S([&] { return vf::jvecs(s.labels()); }));
            n.scal.emplace_back("label", S([&] { return oq(s.label()); }));
        } else if (t == DimensionType::Range) {
            RangeDimension r = d.asRangeDimension();
            n.scal.emplace_back("kind", "range");
            n.scal.emplace_back("alias", S([&] { return std::string(r.alias() ? "1" : "0"); }));
            n.scal.emplace_back("ticks", S([&] { return vf::jvecd(r.ticks()); }));
            n.scal.emplace_back("unit", S([&] { return oq(r.unit()); }));
            n.scal.emplace_back("label", S([&] { return oq(r.label()); }));
        } else {
            DataFrameDimension f = d.asDataFrameDimension();
            n.scal.emplace_back("kind", "dataframe");
            n.scal.emplace_back("column", S([&] { auto c = f.columnIndex(); return c ? std::to_string(*c) : std::string("-"); }));
            std::vector<std::string> v;
            std::string r = S([&] { DataFrame df = f.data(); if (df) v.push_back(df.id()); return std::string(); });
            if (!r.empty()) v.push_back(r);
            n.links.emplace_back("frame", v);
        }
        return n;
    }

    Node array(const DataArray &a) {
        Node n; n.kind = "DataArray";
        named(n, a);
        if (pool) pool->arrays[n.id] = a;
        n.scal.emplace_back("dtype", S([&] { return dtype_str(a.dataType()); }));
        n.scal.emplace_back("extent", S([&] { return ndsize_str(a.dataExtent()); }));
        n.scal.emplace_back("label", S([&] { return oq(a.label()); }));
        n.scal.emplace_back("unit", S([&] { return oq(a.unit()); }));
        n.scal.emplace_back("origin", S([&] { return od(a.expansionOrigin()); }));
        n.scal.emplace_back("poly", S([&] { return vf::jvecd(a.polynomCoefficients()); }));
        if (o.data) n.scal.emplace_back("data", S([&] { return array_data(a); }));
        metadata(n, a);
        sources(n, a);
        std::vector<Node> dims;
        std::string r = S([&] {
            size_t c = a.dimensionCount();
            n.scal.emplace_back("dimcount", std::to_string(c));
            for (size_t i = 1; i <= c; i++) {
                Dimension d;
                std::string e = S([&] { d = a.getDimension(i); return std::string(); });
                if (!e.empty() || !d) { Node x; x.kind = "Dim"; x.scal.emplace_back("index", std::to_string(i)); x.scal.emplace_back("kind", e.empty() ? "none" : e); dims.push_back(x); }
                else { dims.push_back(dim(d)); if (pool) pool->dims[n.id + "/dim" + std::to_string(i) + "/" + dims.back().get("kind")] = d; }
            }
            // nothing beyond the count
            std::string beyond = S([&] { return std::string(a.getDimension(c + 1) ? "present" : "none"); });
            if (beyond != "none") n.scal.emplace_back("dim_beyond_count", beyond);
            return std::string();
        });
        if (!r.empty()) n.scal.emplace_back("dims_error", r);
        n.kids.emplace_back("dims", dims);
        return n;
    }

    Node frame(const DataFrame &f0) {
        DataFrame f = f0;
        Node n; n.kind = "DataFrame";
        named(n, f);
        if (pool) pool->frames[n.id] = f;
        std::vector<Column> cols;
        n.scal.emplace_back("columns", S([&] {
            cols = f.columns();
            std::string s = "[";
            for (size_t i = 0; i < cols.size(); i++) { if (i) s += ","; s += q(cols[i].name) + ":" + q(cols[i].unit) + ":" + dtype_str(cols[i].dtype); }
            return s + "]";
        }));
        ndsize_t rows = 0;
        n.scal.emplace_back("rows", S([&] { rows = f.rows(); return std::to_string(rows); }));
        if (o.data) {
            n.scal.emplace_back("cells", S([&] {
                std::string s = "[";
                for (ndsize_t r = 0; r < rows && r < 64; r++) {
                    if (r) s += ";";
                    std::vector<Variant> row = f.readRow(r);
                    for (size_t c = 0; c < row.size(); c++) { if (c) s += ","; s += variant_str(row[c]); }
                }
                return s + "]";
            }));
        }
        metadata(n, f);
        sources(n, f);
        return n;
    }

    Node feature(const Feature &ft) {
        Node n; n.kind = "Feature";
        n.id = S([&] { return ft.id(); });
        if (pool) pool->features[n.id] = ft;
        n.scal.emplace_back("linktype", S([&] { return link_type_to_string(ft.linkType()); }));
        if (o.created_at) n.scal.emplace_back("created", S([&] { return std::to_string((long)ft.createdAt()); }));
        std::vector<std::string> v;
        std::string r = S([&] { DataArray d = ft.data(); if (d) v.push_back(d.id()); return std::string(); });
        if (!r.empty()) v.push_back(r);
        n.links.emplace_back("data", v);
        return n;
    }

    template <typename T> void tag_common(Node &n, const T &t) {
        n.scal.emplace_back("units", S([&] { return vf::jvecs(t.units()); }));
        std::vector<std::string> refs;
        std::string r = S([&] {
            size_t c = t.referenceCount();
            for (size_t i = 0; i < c; i++) refs.push_back(S([&] { return t.getReference(i).id(); }));
            return std::string();
        });
        if (!r.empty()) refs.push_back(r);
        n.links.emplace_back("refs", refs);
        if (o.lookups) {
            std::string lk;
            for (auto &id : refs) lk += S([&] { return std::string(t.hasReference(id) ? "1" : "0") + (t.getReference(id).id() == id ? "1" : "0"); });
            n.scal.emplace_back("refs_lk", lk.empty() ? "-" : lk);
        }
        std::vector<Node> feats;
        r = S([&] {
            size_t c = t.featureCount();
            for (size_t i = 0; i < c; i++) {
                Feature ft;
                std::string e = S([&] { ft = t.getFeature(i); return std::string(); });
                if (!e.empty() || !ft) { Node x; x.kind = "Feature"; x.scal.emplace_back("error", e.empty() ? "none" : e); feats.push_back(x); continue; }
                Node fn = feature(ft);
                if (o.lookups) fn.scal.emplace_back("lk", S([&] { return std::string(t.hasFeature(fn.id) ? "1" : "0") + (t.hasFeature(ft) ? "1" : "0") + (t.getFeature(fn.id).id() == fn.id ? "1" : "0"); }));
                feats.push_back(fn);
            }
            return std::string();
        });
        if (!r.empty()) n.scal.emplace_back("features_error", r);
        n.kids.emplace_back("features", feats);
        metadata(n, t);
        sources(n, t);
    }

    Node tag(const Tag &t) {
        Node n; n.kind = "Tag";
        named(n, t);
        if (pool) pool->tags[n.id] = t;
        n.scal.emplace_back("position", S([&] { return vf::jvecd(t.position()); }));
        n.scal.emplace_back("extent", S([&] { return vf::jvecd(t.extent()); }));
        tag_common(n, t);
        return n;
    }

    Node mtag(const MultiTag &t) {
        Node n; n.kind = "MultiTag";
        named(n, t);
        if (pool) pool->mtags[n.id] = t;
        std::vector<std::string> p, e;
        std::string r = S([&] { DataArray d = t.positions(); if (d) p.push_back(d.id()); return std::string(); });
        if (!r.empty()) p.push_back(r);
        r = S([&] { DataArray d = t.extents(); if (d) e.push_back(d.id()); return std::string(); });
        if (!r.empty()) e.push_back(r);
        n.links.emplace_back("positions", p);
        n.links.emplace_back("extents", e);
        tag_common(n, t);
        return n;
    }

    template <typename G, typename FCount, typename FGet> std::vector<std::string> members(const G &, FCount cnt, FGet get) {
        std::vector<std::string> v;
        std::string r = S([&] { size_t c = cnt(); for (size_t i = 0; i < c; i++) v.push_back(S([&] { return get(i); })); return std::string(); });
        if (!r.empty()) v.push_back(r);
        return v;
    }

    Node group(const Group &g) {
        Node n; n.kind = "Group";
        named(n, g);
        if (pool) pool->groups[n.id] = g;
        n.links.emplace_back("arrays", members(g, [&] { return g.dataArrayCount(); }, [&](size_t i) { return g.getDataArray(i).id(); }));
        n.links.emplace_back("frames", members(g, [&] { return g.dataFrameCount(); }, [&](size_t i) { return g.getDataFrame(i).id(); }));
        n.links.emplace_back("tags", members(g, [&] { return g.tagCount(); }, [&](size_t i) { return g.getTag(i).id(); }));
        n.links.emplace_back("mtags", members(g, [&] { return g.multiTagCount(); }, [&](size_t i) { return g.getMultiTag(i).id(); }));
        if (o.lookups) {
            std::string lk;
            for (auto &id : *n.link("arrays")) lk += S([&] { return std::string(g.hasDataArray(id) ? "1" : "0"); });
            for (auto &id : *n.link("frames")) lk += S([&] { return std::string(g.hasDataFrame(id) ? "1" : "0"); });
            for (auto &id : *n.link("tags")) lk += S([&] { return std::string(g.hasTag(id) ? "1" : "0"); });
            for (auto &id : *n.link("mtags")) lk += S([&] { return std::string(g.hasMultiTag(id) ? "1" : "0"); });
            n.scal.emplace_back("members_has", lk.empty() ? "-" : lk);
        }
        metadata(n, g);
        sources(n, g);
        return n;
    }

    Node source(const Source &s, int depth) {
        Node n; n.kind = "Source";
        named(n, s);
        if (pool) pool->sources[n.id] = s;
        metadata(n, s);
        std::vector<Node> ch;
        if (depth < 12) {
            std::string r = S([&] {
                size_t c = s.sourceCount();
                for (size_t i = 0; i < c; i++) {
                    Source k;
                    std::string e = S([&] { k = s.getSource(i); return std::string(); });
                    if (!e.empty() || !k) { Node x; x.kind = "Source"; x.scal.emplace_back("error", e.empty() ? "none" : e); ch.push_back(x); continue; }
                    Node kn = source(k, depth + 1);
                    if (o.lookups) kn.scal.emplace_back("lk", lookup([&] { return s.getSource(kn.name).id(); }, [&] { return s.getSource(kn.id).id(); },
                                                                      [&] { return s.hasSource(kn.name); }, [&] { return s.hasSource(kn.id); }, [&] { return s.hasSource(k); }, kn.id));
                    ch.push_back(kn);
                }
                return std::string();
            });
            if (!r.empty()) n.scal.emplace_back("children_error", r);
        }
        n.kids.emplace_back("sources", ch);
        return n;
    }

    Node property(const Property &p) {
        Node n; n.kind = "Property";
        n.id = S([&] { return p.id(); });
        if (pool) pool->properties[n.id] = p;
        n.name = S([&] { return p.name(); });
        n.scal.emplace_back("dtype", S([&] { return dtype_str(p.dataType()); }));
        n.scal.emplace_back("def", S([&] { return oq(p.definition()); }));
        n.scal.emplace_back("unit", S([&] { return oq(p.unit()); }));
        n.scal.emplace_back("uncertainty", S([&] { return od(p.uncertainty()); }));
        if (o.created_at) n.scal.emplace_back("created", S([&] { return std::to_string((long)p.createdAt()); }));
        n.scal.emplace_back("count", S([&] { return std::to_string(p.valueCount()); }));
        if (o.data) n.scal.emplace_back("values", S([&] {
            std::vector<Variant> v = p.values();
            std::string s = "[";
            for (size_t i = 0; i < v.size(); i++) { if (i) s += ","; s += variant_str(v[i]); }
            return s + "]";
        }));
        return n;
    }

    template <typename A, typename B, typename C, typename D, typename E>
    std::string lookup(A byName, B byId, C hasName, D hasId, E hasHandle, const std::string &id) {
        std::string r;
        r += S([&] { return std::string(byName() == id ? "1" : "0"); });
        r += S([&] { return std::string(byId() == id ? "1" : "0"); });
        r += S([&] { return std::string(hasName() ? "1" : "0"); });
        r += S([&] { return std::string(hasId() ? "1" : "0"); });
        r += S([&] { return std::string(hasHandle() ? "1" : "0"); });
        return r;
    }

    Node section(const Section &s, int depth) {
        Node n; n.kind = "Section";
        named(n, s);
        if (pool) pool->sections[n.id] = s;
        n.scal.emplace_back("repo", S([&] { return oq(s.repository()); }));
        std::vector<std::string> l;
        std::string r = S([&] { Section t = s.link(); if (t) l.push_back(t.id()); return std::string(); });
        if (!r.empty()) l.push_back(r);
        n.links.emplace_back("link", l);
        std::vector<Node> props;
        r = S([&] {
            size_t c = s.propertyCount();
            for (size_t i = 0; i < c; i++) {
                Property p;
                std::string e = S([&] { p = s.getProperty(i); return std::string(); });
                if (!e.empty() || !p) { Node x; x.kind = "Property"; x.scal.emplace_back("error", e.empty() ? "none" : e); props.push_back(x); continue; }
                Node pn = property(p);
                if (o.lookups) pn.scal.emplace_back("lk", lookup([&] { return s.getProperty(pn.name).id(); }, [&] { return s.getProperty(pn.id).id(); },
                                                                  [&] { return s.hasProperty(pn.name); }, [&] { return s.hasProperty(pn.id); }, [&] { return s.hasProperty(p); }, pn.id));
                props.push_back(pn);
            }
            return std::string();
        });
        if (!r.empty()) n.scal.emplace_back("props_error", r);
        n.kids.emplace_back("properties", props);
        std::vector<Node> ch;
        if (depth < 12) {
            r = S([&] {
                size_t c = s.sectionCount();
                for (size_t i = 0; i < c; i++) {
                    Section k;
                    std::string e = S([&] { k = s.getSection(i); return std::string(); });
                    if (!e.empty() || !k) { Node x; x.kind = "Section"; x.scal.emplace_back("error", e.empty() ? "none" : e); ch.push_back(x); continue; }
                    Node kn = section(k, depth + 1);
                    if (o.lookups) {
                        kn.scal.emplace_back("lk", lookup([&] { return s.getSection(kn.name).id(); }, [&] { return s.getSection(kn.id).id(); },
                                                          [&] { return s.hasSection(kn.name); }, [&] { return s.hasSection(kn.id); }, [&] { return s.hasSection(k); }, kn.id));
                        kn.scal.emplace_back("parent_ok", S([&] { Section p = k.parent(); return std::string(p && p.id() == n.id ? "1" : "0"); }));
                    }
                    ch.push_back(kn);
                }
                return std::string();
            });
            if (!r.empty()) n.scal.emplace_back("children_error", r);
        }
        n.kids.emplace_back("sections", ch);
        return n;
    }

    template <typename FCount, typename FGet, typename FNode, typename FLk>
    std::vector<Node> container(FCount cnt, FGet get, FNode mk, FLk lk) {
        std::vector<Node> v;
        std::string r = S([&] {
            size_t c = cnt();
            for (size_t i = 0; i < c; i++) {
                std::string e = S([&] {
                    auto ent = get(i);
                    if (!ent) { Node x; x.kind = "?"; x.scal.emplace_back("error", "none"); v.push_back(x); return std::string(); }
                    Node n = mk(ent);
                    if (o.lookups) n.scal.emplace_back("lk", lk(ent, n));
                    v.push_back(n);
                    return std::string();
                });
                if (!e.empty()) { Node x; x.kind = "?"; x.scal.emplace_back("error", e); v.push_back(x); }
            }
            return std::string();
        });
        if (!r.empty()) { Node x; x.kind = "?"; x.scal.emplace_back("container_error", r); v.push_back(x); }
        return v;
    }

    Node block(const Block &b) {
        Node n; n.kind = "Block";
        named(n, b);
        if (pool) pool->blocks[n.id] = b;
        metadata(n, b);
        n.kids.emplace_back("arrays", container([&] { return b.dataArrayCount(); }, [&](size_t i) { return b.getDataArray(i); }, [&](const DataArray &a) { return array(a); },
            [&](const DataArray &a, const Node &x) { return lookup([&] { return b.getDataArray(x.name).id(); }, [&] { return b.getDataArray(x.id).id(); }, [&] { return b.hasDataArray(x.name); }, [&] { return b.hasDataArray(x.id); }, [&] { return b.hasDataArray(a); }, x.id); }));
        n.kids.emplace_back("frames", container([&] { return b.dataFrameCount(); }, [&](size_t i) { return b.getDataFrame(i); }, [&](const DataFrame &a) { return frame(a); },
            [&](const DataFrame &a, const Node &x) { return lookup([&] { return b.getDataFrame(x.name).id(); }, [&] { return b.getDataFrame(x.id).id(); }, [&] { return b.hasDataFrame(x.name); }, [&] { return b.hasDataFrame(x.id); }, [&] { return b.hasDataFrame(a); }, x.id); }));
        n.kids.emplace_back("tags", container([&] { return b.tagCount(); }, [&](size_t i) { return b.getTag(i); }, [&](const Tag &a) { return tag(a); },
            [&](const Tag &a, const Node &x) { return lookup([&] { return b.getTag(x.name).id(); }, [&] { return b.getTag(x.id).id(); }, [&] { return b.hasTag(x.name); }, [&] { return b.hasTag(x.id); }, [&] { return b.hasTag(a); }, x.id); }));
        n.kids.emplace_back("mtags", container([&] { return b.multiTagCount(); }, [&](size_t i) { return b.getMultiTag(i); }, [&](const MultiTag &a) { return mtag(a); },
            [&](const MultiTag &a, const Node &x) { return lookup([&] { return b.getMultiTag(x.name).id(); }, [&] { return b.getMultiTag(x.id).id(); }, [&] { return b.hasMultiTag(x.name); }, [&] { return b.hasMultiTag(x.id); }, [&] { return b.hasMultiTag(a); }, x.id); }));
        n.kids.emplace_back("groups", container([&] { return b.groupCount(); }, [&](size_t i) { return b.getGroup(i); }, [&](const Group &a) { return group(a); },
            [&](const Group &a, const Node &x) { return lookup([&] { return b.getGroup(x.name).id(); }, [&] { return b.getGroup(x.id).id(); }, [&] { return b.hasGroup(x.name); }, [&] { return b.hasGroup(x.id); }, [&] { return b.hasGroup(a); }, x.id); }));
        n.kids.emplace_back("sources", container([&] { return b.sourceCount(); }, [&](size_t i) { return b.getSource(i); }, [&](const Source &a) { return source(a, 0); },
            [&](const Source &a, const Node &x) { return lookup([&] { return b.getSource(x.name).id(); }, [&] { return b.getSource(x.id).id(); }, [&] { return b.hasSource(x.name); }, [&] { return b.hasSource(x.id); }, [&] { return b.hasSource(a); }, x.id); }));
        return n;
    }

    Node block_own(const Block &b) {
        Node n; n.kind = "Block";
        named(n, b);
        metadata(n, b);
        return n;
    }
    Node section_own(const Section &s) {
        Node n; n.kind = "Section";
        named(n, s);
        n.scal.emplace_back("repo", S([&] { return oq(s.repository()); }));
        std::vector<std::string> l;
        std::string r = S([&] { Section t = s.link(); if (t) l.push_back(t.id()); return std::string(); });
        if (!r.empty()) l.push_back(r);
        n.links.emplace_back("link", l);
        return n;
    }

    Node file(const File &f) {
        Node n; n.kind = "File";
        n.id = S([&] { return f.id(); });
        n.scal.emplace_back("format", S([&] { return q(f.format()); }));
        n.scal.emplace_back("version", S([&] { return vf::jvec(f.version()); }));
        if (o.created_at) n.scal.emplace_back("created", S([&] { return std::to_string((long)f.createdAt()); }));
        if (o.updated_at) n.scal.emplace_back("updated", S([&] { return std::to_string((long)f.updatedAt()); }));
        n.kids.emplace_back("blocks", container([&] { return f.blockCount(); }, [&](size_t i) { return f.getBlock(i); }, [&](const Block &a) { return block(a); },
            [&](const Block &a, const Node &x) { return lookup([&] { return f.getBlock(x.name).id(); }, [&] { return f.getBlock(x.id).id(); }, [&] { return f.hasBlock(x.name); }, [&] { return f.hasBlock(x.id); }, [&] { return f.hasBlock(a); }, x.id); }));
        n.kids.emplace_back("sections", container([&] { return f.sectionCount(); }, [&](size_t i) { return f.getSection(i); }, [&](const Section &a) { return section(a, 0); },
            [&](const Section &a, const Node &x) { return lookup([&] { return f.getSection(x.name).id(); }, [&] { return f.getSection(x.id).id(); }, [&] { return f.hasSection(x.name); }, [&] { return f.hasSection(x.id); }, [&] { return f.hasSection(a); }, x.id); }));
        return n;
    }
};

} // namespace

Node observe(const File &f, const Options &o, Pool *pool) {
    W w; w.o = o; w.pool = pool;
    if (pool) pool->clear();
    return w.file(f);
}

static std::string own_line(const Node &n) {
    Node c = n;
    // child containers hold entities that are pooled (and compared) on their own; dimensions likewise
    c.kids.clear();
    // lookup agreement lines are computed by the parent, not by the entity itself
    std::vector<std::pair<std::string, std::string>> keep;
    for (auto &kv : c.scal) if (kv.first != "lk" && kv.first != "parent_ok" && kv.first != "dimcount" && kv.first != "dim_beyond_count" && kv.first != "src_has" && kv.first != "refs_lk" && kv.first != "members_has") keep.push_back(kv);
    c.scal.swap(keep);
    return render(c, 0);
}

std::map<std::string, std::string> own_lines(const Node &root) {
    std::map<std::string, std::string> m;
    walk(root, [&](const Node &n) {
        if (n.kind == "File") return;
        if (!n.id.empty() && n.kind != "Dim") m[n.kind + ":" + n.id] = own_line(n);
        if (n.kind == "DataArray")
            for (auto &c : n.kids) if (c.first == "dims")
                for (size_t i = 0; i < c.second.size(); i++) m["Dim:" + n.id + "/dim" + std::to_string(i + 1) + "/" + c.second[i].get("kind")] = own_line(c.second[i]);
    });
    return m;
}

std::map<std::string, std::string> own_lines(const Pool &p, const Options &o) {
    W w; w.o = o; w.o.lookups = false; w.pool = nullptr;
    std::map<std::string, std::string> m;
    for (auto &kv : p.blocks) m["Block:" + kv.first] = own_line(w.block_own(kv.second));
    for (auto &kv : p.arrays) m["DataArray:" + kv.first] = own_line(w.array(kv.second));
    for (auto &kv : p.frames) m["DataFrame:" + kv.first] = own_line(w.frame(kv.second));
    for (auto &kv : p.tags) m["Tag:" + kv.first] = own_line(w.tag(kv.second));
    for (auto &kv : p.mtags) m["MultiTag:" + kv.first] = own_line(w.mtag(kv.second));
    for (auto &kv : p.groups) m["Group:" + kv.first] = own_line(w.group(kv.second));
    for (auto &kv : p.sources) m["Source:" + kv.first] = own_line(w.source(kv.second, 100));
    for (auto &kv : p.sections) m["Section:" + kv.first] = own_line(w.section_own(kv.second));
    for (auto &kv : p.properties) m["Property:" + kv.first] = own_line(w.property(kv.second));
    for (auto &kv : p.features) m["Feature:" + kv.first] = own_line(w.feature(kv.second));
    for (auto &kv : p.dims) m["Dim:" + kv.first] = own_line(w.dim(kv.second));
    return m;
}

} // namespace obs
